#!/bin/sh
# round-3 seeds (delivered by sub-agents in /tmp/seed3/<id>/OUT/D): confirm + run the property's quick check, P at a time
P=${P:-3}
for id in "$@"; do
  d=/tmp/seed3/$id/OUT/D
  [ -f $d/patch.diff ] || continue
  echo "$id $d D"
done | xargs -P $P -L 1 sh -c 'python3 /verif/tools/seedeval.py $0 $1 $2 > /tmp/seed3/eval-$0-$2.log 2>&1; echo done $0 $2'
