#!/bin/sh
# every registered check of one tier, one after the other, against /repo; summary on stdout
tier=${1:-quick}
cd "$(dirname "$0")/.."
rc=0
for id in $(python3 -c "import json;print(' '.join(c['property_id'] for c in json.load(open('MANIFEST.json'))['checks']))"); do
  t0=$(date +%s)
  ./vcheck run $id --tier $tier > /tmp/runall-$id.log 2>&1; e=$?
  echo "$id exit=$e $(( $(date +%s)-t0 ))s $(grep -cE '^VIOLATION|^REDUCED|^KNOWN-FINDING' /tmp/runall-$id.log) flagged-lines"
  grep -E '^VIOLATION|^REDUCED|^KNOWN-FINDING|INCONCLUSIVE|MISMATCH' /tmp/runall-$id.log
  [ $e -ne 0 ] && rc=1
done
exit $rc
