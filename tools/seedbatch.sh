#!/bin/sh
# evaluate all delivered seeds of the given properties, 3 at a time
for id in "$@"; do
  for v in A B; do
    d=/tmp/seed/$id/OUT/$v
    [ -f $d/patch.diff ] || continue
    echo "$id $d $v"
  done
done | xargs -P 3 -L 1 sh -c 'python3 /verif/tools/seedeval.py $0 $1 $2 > /tmp/seed/eval-$0-$2.log 2>&1; echo done $0 $2'
