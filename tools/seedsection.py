#!/usr/bin/env python3
"""Regenerates DESIGN.md section 10 (seeded changes) from /verif/seeded/*/meta.json."""
import json, glob, os, re
rows = []
stats = {1: [0, 0, 0, 0], 2: [0, 0, 0, 0], 3: [0, 0, 0, 0], 4: [0, 0, 0, 0]}  # n, first caught, first inconclusive, final caught
for f in sorted(glob.glob('/verif/seeded/*/meta.json')):
    m = json.load(open(f)); d = os.path.basename(os.path.dirname(f))
    suf = d.split('-')[1]
    rnd = {'A': 1, 'A2': 1, 'B': 1, 'C': 2, 'D': 3, 'E': 4}[suf]
    what = (m.get('what_it_needs', '').strip().split('\n') or [''])[0][:140].replace('|', '\\|')
    c = m.get('checks', {}).get(m['property'], {})
    fa = m.get('first_attempt', '')
    st = stats[rnd]; st[0] += 1
    if fa.startswith('caught'): st[1] += 1
    elif fa.startswith('inconclusive'): st[2] += 1
    sib = [k for k, v in m.get('checks', {}).items() if k != m['property'] and v.get('detected')]
    if c.get('detected') or sib: st[3] += 1
    final = 'caught (%ss): %s' % (c.get('wall_s'), ('; '.join(c.get('what', [])))[:110].replace('|', '\\|')) if c.get('detected') else ('not by %s (exit %s); caught by the check of %s (%ss): %s' % (m['property'], c.get('exit'), sib[0], m['checks'][sib[0]].get('wall_s'), '; '.join(m['checks'][sib[0]].get('what', []))[:90].replace('|', '\\|')) if sib else 'NOT caught (exit %s)' % c.get('exit'))
    if m.get('rebased'): final += ' *(patch re-made on the repaired tree)*'
    rows.append('| %s | %s | %s | %s |' % (d, what, fa.replace('|', '\\|'), final))
n = sum(s[0] for s in stats.values()); fc = sum(s[3] for s in stats.values())
nreb = sum(1 for f in glob.glob('/verif/seeded/*/meta.json') if json.load(open(f)).get('rebased'))
table = "| Seed | Change (first line of its author's note) | First attempt | Final quick check (current tree, current checks) |\n|---|---|---|---|\n" + '\n'.join(rows)
sec = '''## 10. Seeded changes: which checks catch which breakage

Fresh sub-agents were given only the text of one property and a private git
worktree of `/repo` (nothing from `/verif`) and asked for changes that break
the property, still compile, still pass the unedited suite and need something
specific to manifest, with a demonstration test. **Round 1**: two independent
changes per property (40). **Round 2**: one more per property (20), the agents
being told what the round-1 changes were so as to do something different, with
a hint where I thought the checks were thin. **Round 3**: one more per property
(20), told about all three earlier ones, **without any hint** - "go where nobody
has looked" - and asked to report separately anything the *unchanged* library
already gets wrong. Each change was confirmed before it was kept
(`tools/seedeval.py`: demonstration passes on the unchanged tree, patch applies,
suite passes with the patch, demonstration fails with the patch), then the
property's quick check was run against the changed tree (a scratch worktree
passed through `VERIF_REPO`; `git -C /repo apply … ; ./vcheck run … ; git -C
/repo checkout -- .` gives the same result and was used for spot checks), and
the tree was discarded. The kept material is in
`/verif/seeded/<property>-<A|B|C|D|E>/` (`patch.diff`, `demo_test.go`,
`meta.json`: what it needs to manifest, what was run, the first and the final
result). Because the repairs of §7 edit the same files, %d patches stopped
applying and were re-made on the repaired tree (same slip, demonstration
re-verified in both directions; `rebased` in `meta.json`).

**Honest scoreboard - first attempt** (the check as registered when the seed
arrived): round 1: %d of %d caught, %d inconclusive (exit 2, engine gaps), the
rest missed; round 2: %d of %d caught, %d inconclusive; round 3: **%d of %d
caught**, %d inconclusive, %d missed. The trend is the finding: every round of
strengthening closes the gaps the previous seeds exposed, and fresh authors who
are told to avoid what exists walk straight into the next gap - a generator
covers what its author thought of. Round 3 needed: hidden flows through
escape-then-unescape (C02), routes today's grammar does not have (C03), other
templates' executions and other entry points in the history (C04, C05, C10,
C20), Go kinds, embedding and interface parameters (C07, C08), state across
re-entered loops (C09), real files behind missing names (C11), bindings that
are nil (C12), recursion through default expressions (C13), block tags after
markup (C14), expressions glued to markers (C15), errors across files (C16),
float literals as arguments (C19). **No seeded change ever produced a false
VIOLATION**, and no strengthened check raises an alarm on the unchanged tree
(every strengthening was run there first; two of them would have - see §11,
C02 ampersand and the C08 expectations - and were corrected before anything
was committed). Every miss was a *generator* gap, every inconclusive run an
*engine* gap (`sync.Pool`, `sync.Map`, `unicode` tables, append growth, index
sign extension, `reflect.Type.FieldByName`, solver time under load); each was
closed in the harness or engine, never by special-casing the seed. **Final
state: %d of %d caught at the quick tier** (last pass over all %d on the final
tree and checks: `tools/seedfinal.sh`).

**Round 4** (suffix E, 14 properties: C02, C03, C04, C05, C06, C07, C08, C10, C11, C13, C14, C17, C19, C20; same brief as
round 3, told about the four earlier changes of their property): first attempt %d of %d caught by the
property's own check, 1 more (C06-E, `TrimSpace` between two trimming tags) not by C06 but by C15's check,
whose subject it is, %d inconclusive, the rest missed. What was missing and what was added - again in the
generator or the engine, never for the seed: C14-E (a fast path for literal-only templates that skips
context validation and hands out an aliased buffer) -> `HarnessC14Shapes`: degenerate template shapes x a
context key of symbolic bytes x a second round of all four variants after the caller scribbled over the
first results; C19-E and C13 (macro defaults evaluated among the macro's own parameters) -> positions
13/14 of `HarnessC19Positions`; C11-E (per-load memo shares one compiled base between two children) ->
forms 24/25 of `HarnessC11`; C02-E (safe flag of a named cycle frozen at registration) -> three routes
with named cycles that mix macro output and tainted text and are advanced by name; C08-E ended as exit 2
because the engine had no model of `reflect.Type.ConvertibleTo`/`Value.Convert` -> modelled with go/types'
conversion rules and the engine's own `conv`; C20-E (per-slot `sync.Once`, failed load deletes the slot
by name) was flagged by the critical-section monitor but its native demonstration did not reproduce it
(exit 2) -> the demonstration now also stages a failing load that is overtaken by `CleanCache` and a
successful reload. Those 12 are caught now. **Still open** (arrived in the last minutes of the session,
confirmed, missed, not yet closed - the next strengthening to do): C04-E (the item slice of an in-template
list literal `[a, b]` is kept on the compiled node and refilled; visible when the same literal is
re-evaluated while an earlier result is still being iterated - recursion through a macro, or concurrent
executions; C04's programs have no list literal with non-constant items inside a recursive macro) and
C07-E (a fast path in `^` that switches on the *truncated* exponent: `4 ^ 0.5` gives 1; C07's generator
draws integer exponents and `.0` floats only).

The round-3 agents' reports about the unchanged tree were the most productive
input of the whole exercise: 20 of the 41 repairs of §7 start from them. Each
was turned into a generator region first, so that the check finds it by itself
(and keeps finding it: the corresponding `fixed:` entries suppress nothing).

''' % (nreb, stats[1][1], stats[1][0], stats[1][2], stats[2][1], stats[2][0], stats[2][2], stats[3][1], stats[3][0], stats[3][2], stats[3][0]-stats[3][1]-stats[3][2], fc, n, n, stats[4][1], stats[4][0], stats[4][2]) + table + '\n\n'
s = open('/verif/DESIGN.md').read()
a = s.index('## 10. Seeded changes'); k = s.index('## 11. Alarms that were the machinery')
open('/verif/DESIGN.md', 'w').write(s[:a] + sec + s[k:])
print(stats, fc, n)
