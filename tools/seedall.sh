#!/bin/sh
# final pass: every delivered seed against the current harnesses (quick tier), 3 at a time
for d in /tmp/seed/C*/OUT/*; do
  [ -f $d/patch.diff ] || continue
  id=$(echo $d | sed 's|/tmp/seed/\(C[0-9]*\)/OUT/.*|\1|'); v=$(basename $d)
  [ "$id-$v" = "C04-A" ] && continue   # superseded by the rebased A2
  echo "$id $d $v"
done | xargs -P 3 -L 1 sh -c 'python3 /verif/tools/seedeval.py $0 $1 $2 > /tmp/seed/final-$0-$2.log 2>&1; echo done $0 $2'
