#!/usr/bin/env python3
"""Evaluate a seeded breaking change: confirm it in a scratch worktree (suite green, demo red
with the change, demo green without), then run our check(s) against /repo with the patch applied
and undo it straight afterwards. Usage: seedeval.py <prop> <srcdir> <name> [tier] [extra props..]"""
import sys, os, subprocess, json, tempfile, shutil, time
prop, src, name = sys.argv[1], sys.argv[2], sys.argv[3]
tier = sys.argv[4] if len(sys.argv) > 4 else "quick"
extra = sys.argv[5:]
env = dict(os.environ, GOFLAGS="-mod=mod", GOPROXY="off", GOSUMDB="off", GOTOOLCHAIN="local")
def run(cmd, cwd=None, timeout=3600, e=None):
    p = subprocess.run(cmd, shell=True, cwd=cwd, env=e or env, capture_output=True, text=True, timeout=timeout)
    return p.returncode, p.stdout + p.stderr
patch = os.path.join(src, "patch.diff"); demo = os.path.join(src, "demo_test.go")
meta_txt = open(os.path.join(src, "meta.txt")).read() if os.path.exists(os.path.join(src, "meta.txt")) else ""
race = "-race" in meta_txt
if not meta_txt:
    try:
        _old = json.load(open(os.path.join("/verif/seeded", "%s-%s" % (prop, name), "meta.json")))
        race = bool(_old.get("needs_race_flag_for_demo")) or "-race" in _old.get("what_it_needs", "")
    except Exception:
        pass
wt = tempfile.mkdtemp(prefix="seedwt")
os.rmdir(wt)
rc, out = run("git -C /repo worktree add -q --detach %s HEAD" % wt)
assert rc == 0, out
res = {"property": prop, "name": name, "needs_race_flag_for_demo": race}
try:
    tmp = tempfile.mkdtemp(prefix="seedtmp")
    e2 = dict(env, TMPDIR=tmp)
    flag = "-race" if race else ""
    shutil.copy(demo, os.path.join(wt, "zz_seed_demo_test.go"))
    rc0, o0 = run("go test -vet=off -count=1 %s -run TestSeedDemo ." % flag, cwd=wt, e=e2)
    res["demo_passes_unchanged"] = rc0 == 0
    os.remove(os.path.join(wt, "zz_seed_demo_test.go"))
    rc, out = run("git apply %s" % patch, cwd=wt)
    res["patch_applies"] = rc == 0
    if rc != 0: print(out)
    rc1, o1 = run("go build ./... && go test -vet=off -count=1 .", cwd=wt, e=e2)
    res["suite_passes_with_change"] = rc1 == 0
    if rc1 != 0: print(o1[-2000:])
    shutil.copy(demo, os.path.join(wt, "zz_seed_demo_test.go"))
    rc2, o2 = run("go test -vet=off -count=1 %s -run TestSeedDemo ." % flag, cwd=wt, e=e2)
    res["demo_fails_with_change"] = rc2 != 0
    shutil.rmtree(tmp, ignore_errors=True)
except Exception as ex:
    run("git -C /repo worktree remove --force %s" % wt)
    raise
res["confirmed"] = bool(res.get("demo_passes_unchanged") and res.get("patch_applies") and res.get("suite_passes_with_change") and res.get("demo_fails_with_change"))
# run our checks against /repo with the change applied
checks = {}
if res["confirmed"]:
    # the scratch worktree still has the change applied (minus the demo file): point the checks at it
    os.remove(os.path.join(wt, "zz_seed_demo_test.go"))
    try:
        for p in [prop] + extra:
            t0 = time.time()
            rc, out = run("./vcheck run %s --tier %s" % (p, tier), cwd="/verif", timeout=7200, e=dict(env, VERIF_REPO=wt, VERIF_EVIDENCE_DIR=wt+"/.verif-evidence", VERIF_REPLAY_DIR=wt+"/.verif-replays"))
            viol = [l for l in out.splitlines() if l.startswith("VIOLATION")]
            det = [l.strip() for l in out.splitlines() if l.strip().startswith("[") and "]" in l and not l.startswith("[C")][:3]
            checks[p] = {"exit": rc, "violations": len(viol), "detected": rc == 1 and len(viol) > 0, "what": det, "wall_s": round(time.time() - t0, 1)}
            if rc not in (0, 1):
                checks[p]["tail"] = out[-1500:]
    finally:
        pass
run("git -C /repo worktree remove --force %s" % wt)
res["checks"] = checks
res["tier"] = tier
dst = os.path.join("/verif/seeded", "%s-%s" % (prop, name))
os.makedirs(dst, exist_ok=True)
for a, b in ((patch, "patch.diff"), (demo, "demo_test.go")):
    if os.path.abspath(a) != os.path.abspath(os.path.join(dst, b)):
        shutil.copy(a, os.path.join(dst, b))
res["what_it_needs"] = meta_txt.strip()
try:
    old = json.load(open(os.path.join(dst, "meta.json")))
    for k in ("first_attempt", "breaks_property", "rebased") + (() if meta_txt else ("what_it_needs",)):
        if k in old:
            res[k] = old[k]
except Exception:
    pass
res.setdefault("breaks_property", prop)
if "first_attempt" not in res and prop in checks:
    c = checks[prop]
    res["first_attempt"] = ("caught by the check as registered when the seed arrived" if c["detected"] else
                            "inconclusive (exit %s) before strengthening" % c["exit"] if c["exit"] not in (0, 1) else "missed before strengthening")
res["ran"] = "scratch worktree: suite + demo with/without patch; then VERIF_REPO=<scratch worktree with the change> ./vcheck run %s --tier %s; worktree removed afterwards" % (" ".join([prop] + extra), tier)
json.dump(res, open(os.path.join(dst, "meta.json"), "w"), indent=1)
print(json.dumps({k: v for k, v in res.items() if k != "what_it_needs"}, indent=1))
