#!/bin/sh
# final pass: every kept seed (/verif/seeded/*) against the current checks (quick tier), P at a time
P=${P:-3}
mkdir -p /tmp/seedfinal
for d in /verif/seeded/*/; do
  n=$(basename $d); id=${n%%-*}; v=${n#*-}
  case " $SKIP " in *" $n "*) continue;; esac
  [ -n "$ONLY" ] && case " $ONLY " in *" $n "*) ;; *) continue;; esac
  echo "$id $d $v"
done | xargs -P $P -L 1 sh -c 'python3 /verif/tools/seedeval.py $0 $1 $2 > /tmp/seedfinal/$0-$2.log 2>&1; echo done $0 $2'
