#!/usr/bin/env python3
"""addfixed.py <id> <property> <commit> <what failed>: record a repaired defect in known_findings.json"""
import json, sys
i, p, c, w = sys.argv[1:5]
k = json.load(open('/verif/known_findings.json'))
assert not any(f['id'] == i for f in k), i
k.append({"id": i, "property": p, "status": "fixed", "commit": c, "what": "fixed: property=%s %s %s" % (p, c, w)})
json.dump(k, open('/verif/known_findings.json', 'w'), indent=1)
