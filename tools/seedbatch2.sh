#!/bin/sh
for id in "$@"; do
  d=/tmp/seed2/$id/OUT/C
  [ -f $d/patch.diff ] || continue
  echo "$id $d C"
done | xargs -P 3 -L 1 sh -c 'python3 /verif/tools/seedeval.py $0 $1 $2 > /tmp/seed2/eval-$0-$2.log 2>&1; echo done $0 $2'
