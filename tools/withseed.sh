#!/bin/sh
# withseed.sh <seed dir name under /verif/seeded> <command...>: run a command with VERIF_REPO pointing at a
# scratch worktree of /repo that has the seeded change applied; the worktree is removed afterwards.
seed=$1; shift
wt=$(mktemp -d /tmp/wtseed.XXXXXX); rmdir $wt
git -C /repo worktree add -q --detach $wt HEAD || exit 9
git -C $wt apply /verif/seeded/$seed/patch.diff || { git -C /repo worktree remove --force $wt; exit 9; }
VERIF_REPO=$wt VERIF_EVIDENCE_DIR=$wt/.verif-evidence VERIF_REPLAY_DIR=$wt/.verif-replays "$@"; e=$?
git -C /repo worktree remove --force $wt
exit $e
