#!/usr/bin/env python3
"""Prints the markdown table of seeded changes (DESIGN.md §10) from /verif/seeded/*/meta.json."""
import json, glob, os
rows=[]
for f in sorted(glob.glob('/verif/seeded/*/meta.json')):
    m=json.load(open(f)); d=os.path.basename(os.path.dirname(f))
    what=(m.get('what_it_needs','').strip().split('\n') or [''])[0][:150]
    c=m.get('checks',{}).get(m['property'],{})
    if not m.get('confirmed'):
        verdict='not kept (could not be confirmed: %s)'%({k:m.get(k) for k in ['patch_applies','suite_passes_with_change','demo_fails_with_change']})
    elif c.get('detected'):
        verdict='**caught** (%s, %ss): %s'%(m.get('tier'),c.get('wall_s'),'; '.join(c.get('what',[]))[:160])
    elif c.get('exit')==0:
        verdict='MISSED at %s tier'%m.get('tier')
    else:
        verdict='inconclusive (exit %s)'%c.get('exit')
    rows.append('| %s | %s | %s |'%(d,what.replace('|','\\|'),verdict.replace('|','\\|')))
print('| Seed | Change (first line of the author\'s note) | Result of `./vcheck run <property>` |\n|---|---|---|')
print('\n'.join(rows))
