package pongo2

// C20: template cache - one compile per name, coherent under concurrency.

import (
	"sync"
	"time"
)

// loader with mutable content and a fetch counter per name
type c20Loader struct {
	mu      sync.Mutex
	files   map[string]string
	fetches map[string]int
	broken  map[string]bool // names whose reader fails after a leading part of the content
	outside int // fetches that happened while the engine saw no mutex held
	nlock   int // own Lock calls (subtracted from the engine's lock-event count)
	// native concurrent demonstration only: the FIRST fetch of name `gated` announces itself, waits to be released and then fails
	gated            string
	gateUsed         bool
	entered, release chan struct{}
	slow    bool // native concurrent demonstration only: every fetch takes a moment, so that overlapping loads overlap for sure
}

func (l *c20Loader) Abs(base, name string) string { return name }
func (l *c20Loader) Get(path string) (ioReader, error) {
	if l.slow {
		time.Sleep(2 * time.Millisecond)
	}
	if l.gated != "" && path == l.gated {
		l.mu.Lock()
		first := !l.gateUsed
		l.gateUsed = true
		if first {
			l.fetches[path]++
		}
		l.mu.Unlock()
		if first {
			close(l.entered)
			select {
			case <-l.release:
			case <-time.After(3 * time.Second):
			}
			return nil, errHarness
		}
	}
	if h := verifLocksHeld(); h == 0 {
		l.outside++ // fetched while no mutex was held (engine only; natively verifLocksHeld() is -1)
	}
	l.mu.Lock()
	defer l.mu.Unlock()
	l.nlock++
	l.fetches[path]++
	s, ok := l.files[path]
	if !ok {
		return nil, &harnessErr{"not found: " + path}
	}
	if l.broken[path] {
		return &c20BrokenReader{s: s[:len(s)/2]}, nil
	}
	return newStringReader(s), nil
}

// a reader that hands out a leading part of the content and then fails (a file system going away)
type c20BrokenReader struct {
	s    string
	done bool
}

func (r *c20BrokenReader) Read(p []byte) (int, error) {
	if r.done || len(r.s) == 0 {
		return 0, errHarness
	}
	r.done = true
	return copy(p, r.s), nil
}

// (a) sequential histories over {FromCache(n), CleanCache(), CleanCache(n), toggle Debug,
// change content, FromCache of a missing name} on two sets vs. a map model.
func HarnessC20History() {
	k := verifParam("k", 3)
	names := []string{"a", "b", "c"}[:verifParam("names", 2)]
	nsets := verifParam("sets", 1)
	// the requested name is a symbolic byte ranging over the names: which cache
	// entry / file a call hits is decided by the solver
	pick := func() string {
		b := verifByte()
		verifAssume(b >= 'a')
		verifAssume(b < 'a'+byte(len(names)))
		return string([]byte{b})
	}
	type model struct {
		cache map[string]*Template
		debug bool
	}
	ld := make([]*c20Loader, nsets)
	sets := make([]*TemplateSet, nsets)
	ms := make([]*model, nsets)
	want := make([]map[string]int, nsets)
	version := map[string]int{}
	for i := range sets {
		ld[i] = &c20Loader{files: map[string]string{}, fetches: map[string]int{}}
		for _, n := range names {
			ld[i].files[n] = n + "0"
		}
		sets[i] = NewSet("s"+itoa(i), ld[i])
		ms[i] = &model{cache: map[string]*Template{}}
		want[i] = map[string]int{}
	}
	for step := 0; step < k; step++ {
		si := 0
		if nsets > 1 {
			si = verifChoice(nsets)
		}
		set, m, l := sets[si], ms[si], ld[si]
		op := verifChoice(7)
		verifObserve("op", op)
		switch op {
		case 0: // FromCache(n)
			n := pick()
			t, err := set.FromCache(n)
			verifAssert(err == nil && t != nil, "FromCache of an existing name must succeed")
			if m.debug {
				want[si][n]++
				for _, old := range m.cache {
					verifAssert(t != old, "with Debug on nothing may be served from the cache")
				}
			} else if c, ok := m.cache[n]; ok {
				verifAssert(t == c, "FromCache must return the same compiled template for the same name")
			} else {
				m.cache[n] = t
				want[si][n]++
			}
			out, _ := t.Execute(nil)
			if !m.debug && out != n+itoa(version[n+itoa(si)]) {
				// a cached template may be older than the file: it must be the version loaded at fill time
				verifAssert(len(out) == 2 && out[0] == n[0], "cached template renders foreign content")
			}
		case 1: // CleanCache()
			set.CleanCache()
			m.cache = map[string]*Template{}
		case 2: // CleanCache(n)
			n := pick()
			set.CleanCache(n)
			delete(m.cache, n)
		case 3: // toggle Debug
			set.Debug = !set.Debug
			m.debug = !m.debug
		case 4: // change the file's content: visible only after the cache entry is cleaned
			n := names[verifChoice(len(names))]
			version[n+itoa(si)]++
			l.files[n] = n + itoa(version[n+itoa(si)])
		case 6: // a load that fails while READING (the loader has the name) is a failed load too: not cached
			n := pick()
			if _, cached := m.cache[n]; cached && !m.debug {
				break // served from the cache without touching the loader
			}
			l.broken = map[string]bool{n: true}
			_, err := set.FromCache(n)
			verifAssert(err != nil, "a template whose source cannot be read completely must not compile")
			want[si][n]++
			l.broken = nil
			t, err2 := set.FromCache(n)
			verifAssert(err2 == nil && t != nil, "a load that failed while reading must not be cached")
			want[si][n]++
			out, _ := t.Execute(nil)
			verifAssert(out == n+itoa(version[n+itoa(si)]), "after a failed read the next call must load the complete current content")
			if !m.debug {
				m.cache[n] = t
			}
		default: // failed loads are not cached
			_, err := set.FromCache("missing")
			verifAssert(err != nil, "FromCache of a missing name must fail")
			want[si]["missing"]++
			l.files["missing"] = "now here"
			t, err2 := set.FromCache("missing")
			verifAssert(err2 == nil && t != nil, "a failed load must not be cached")
			if !m.debug {
				m.cache["missing"] = t
			}
			want[si]["missing"]++
			delete(l.files, "missing")
			set.CleanCache("missing")
			delete(m.cache, "missing")
		}
		for i := range sets {
			for _, n := range append([]string{"missing"}, names...) {
				verifAssert(ld[i].fetches[n] == want[i][n], "loader fetched a name more or less often than the cache model says")
			}
		}
	}
	// after cleaning, the next call loads afresh and sees the current content
	for si, set := range sets {
		set.Debug = false
		set.CleanCache()
		n := names[0]
		t, err := set.FromCache(n)
		verifAssert(err == nil, "FromCache after CleanCache")
		out, _ := t.Execute(nil)
		verifAssert(out == n+itoa(version[n+itoa(si)]), "after CleanCache the next call must load the current content")
	}
}

// (b) lock discipline on every path of FromCache / CleanCache: the shared cache map is
// only touched while the set's mutex is held, and one FromCache call does its
// lookup, compile and fill inside ONE critical section (=> concurrent callers are
// serialised and each serial order is a history covered by (a)).
func HarnessC20Locking() {
	l := &c20Loader{files: map[string]string{"a": "A", "b": "B{% include \"a\" %}"}, fetches: map[string]int{}}
	set := NewSet("verif", l)
	race := verifParam("race", 0) == 1
	if race {
		// native demonstration for monitor findings (go build -race): many goroutines ask at once
		l.slow = true
		var wg sync.WaitGroup
		res := make([]*Template, 8)
		for g := 0; g < 8; g++ {
			wg.Add(1)
			go func(g int) {
				defer wg.Done()
				for i := 0; i < 50; i++ {
					t, _ := set.FromCache("b")
					res[g] = t
					if i%10 == 9 && g == 0 {
						set.CleanCache("nothing")
					}
				}
			}(g)
		}
		wg.Wait()
		for g := 1; g < 8; g++ {
			verifAssert(res[g] == res[0], "concurrent FromCache calls returned different templates for one name")
		}
		verifAssert(l.fetches["b"] == 1, "concurrent FromCache calls compiled one name more than once")
		// a fault at a particular point: a slow load of "c" that is going to FAIL is in flight; meanwhile another
		// caller cleans "c" and loads it successfully (on a tree that serialises everything it simply waits);
		// then the first load reports its failure. The newer entry must survive: the next FromCache("c")
		// returns the template the successful caller got, without another fetch.
		l.slow = false
		l.files["c"] = "C"
		l.gated, l.entered, l.release = "c", make(chan struct{}), make(chan struct{})
		g1, g2 := make(chan struct{}), make(chan struct{})
		var t2 *Template
		go func() {
			set.FromCache("c")
			close(g1)
		}()
		<-l.entered
		go func() {
			set.CleanCache("c")
			t2, _ = set.FromCache("c")
			close(g2)
		}()
		select {
		case <-g2:
		case <-time.After(150 * time.Millisecond):
		}
		close(l.release)
		<-g1
		<-g2
		t3, e3 := set.FromCache("c")
		verifAssert(e3 == nil && t2 != nil && t3 == t2, "a failing load overtaken by CleanCache and a successful reload took the newer cache entry with it")
		verifAssert(l.fetches["c"] == 2, "a failing load overtaken by a successful reload caused one more compile of the name")
		return
	}
	verifEpoch()
	hist := verifParam("k", 3)
	for step := 0; step < hist; step++ {
		n := []string{"a", "b", "missing"}[verifChoice(3)]
		ev0, nl0, out0 := verifLockEvents(), l.nlock, l.outside
		switch verifChoice(3) {
		case 0:
			set.FromCache(n)
			verifMonitorAssert(verifLocksHeld() == 0, "FromCache returned with the cache mutex held")
			verifMonitorAssert(verifLockEvents()-ev0-(l.nlock-nl0) == 1, "FromCache must use exactly one critical section for lookup, compile and fill")
			verifMonitorAssert(l.outside == out0, "FromCache loaded/compiled the template outside its critical section")
		case 1:
			set.CleanCache(n)
		default:
			set.CleanCache()
		}
	}
	verifMonitor("maps-locked")
}
