package pongo2

// C04: compile once, render many - execution never alters the compiled template.
// C05: one compiled template can be executed from many goroutines at once.
// Both use the same program generator: one snippet per registered tag (registry
// read at run time), wrapped in a loop / branch with symbolic data.

import (
	"sort"
	"sync"
)

// snippet for every tag the harness knows; tags a change adds get a bare use
var c04Snippets = map[string]string{
	"autoescape":  "{% autoescape off %}{{ s }}{% endautoescape %}",
	"block":       "{% block bb %}{{ s }}{% endblock %}",
	"comment":     "{% comment %}{{ s }}{% endcomment %}",
	"cycle":       "{% for i in l %}{% cycle \"a\" \"b\" \"c\" %}{% endfor %}",
	"extends":     "\x00extends",
	"filter":      "{% filter upper %}{{ s }}x{% endfilter %}",
	"firstof":     "{% firstof c s \"z\" %}",
	"for":         "{% for i in l %}{{ i }}{{ forloop.Counter }}{% empty %}E{% endfor %}",
	"if":          "{% if c %}Y{% else %}N{% endif %}",
	"ifchanged":   "{% for i in l %}{% ifchanged i %}C{% else %}S{% endifchanged %}{% endfor %}",
	"ifequal":     "{% ifequal s s %}Q{% endifequal %}",
	"ifnotequal":  "{% ifnotequal s \"q\" %}U{% endifnotequal %}",
	"import":      "{% import \"lib\" mm %}{{ mm(s) }}",
	"include":     "{% include \"inc\" %}{% include lazyname with s=s %}",
	"lorem":       "{% lorem 3 w %}",
	"macro":       "{% macro m(p) %}[{{ p }}]{% endmacro %}{{ m(s) }}",
	"now":         "{% now \"2006\" fake %}",
	"set":         "{% set q = s %}{{ q }}",
	"spaceless":   "{% spaceless %}<a> <b>{{ s }}</b> </a>{% endspaceless %}",
	"ssi":         "{% ssi \"inc\" parsed %}",
	"templatetag": "{% templatetag openblock %}",
	"widthratio":  "{% widthratio 1 2 10 %}",
	"with":        "{% with w=s %}{{ w }}{% endwith %}",
}

// second variants for the stateful tags
var c04Extra = []string{
	"{% macro cd(n) %}{{ n }}{% if n > 0 %},{{ cd(n - 1) }}{% endif %}{% endmacro %}{{ cd(depth) }}", // runs into the recursion guard when depth is large
	"{{ obj.Name }}|{{ obj.ID }}",              // the same path over values of different struct types in different executions
	"{% include \"incfail\" %}",                 // an included template that produces output and then may fail
	"{% for i in l %}{{ obj.Name }}{% include \"incfail\" %}{% endfor %}",
	"{% ifchanged %}{{ s }}{% endifchanged %}",                          // ifchanged at top level, comparing its body
	"{% for i in l %}{% ifchanged %}[{{ i }}]{% endifchanged %}{% endfor %}", // ifchanged body comparison in a loop
	"{% cycle \"a\" \"b\" as cv %}{% cycle cv %}",                         // cycle with a named value
	"{% for i in l %}{% cycle \"a\" \"b\" as cv silent %}{{ cv }}{% endfor %}",
	"{{ f(bad) }}", // an output node that fails when the context says so
	"{{ l|length }}{{ s|upper|lower }}{{ l|join:\",\" }}",
}

// programs for the write monitor only (C05): their output is random, what they write must still be their own
var c05Extra = []string{
	"{% lorem 2 w random %}{% lorem 1 p random %}{% lorem 1 b random %}",
	"{{ l|random }}{% now \"2006\" %}",
}

func c04Programs() []string {
	var names []string
	for n := range tags {
		if n != "verifprobe" {
			names = append(names, n)
		}
	}
	sort.Strings(names)
	var ps []string
	for _, n := range names {
		if s, ok := c04Snippets[n]; ok {
			ps = append(ps, s)
		} else {
			ps = append(ps, "{% "+n+" %}")
		}
	}
	return append(ps, c04Extra...)
}

type c04Data struct {
	l   []string
	s   string
	c   bool
	bad bool
	alt bool // which struct type the context entry obj has
	deep bool // recursion depth beyond the macro guard
}

type c04T1 struct {
	ID   int
	Name string
}

type c04T2 struct {
	Name string
	ID   int
}

func c04SymData(maxLen int, prog string) c04Data {
	n := verifChoice(maxLen + 1)
	l := make([]string, n)
	for i := range l {
		l[i] = string([]byte{verifByte()&0x0f | 0x40})
	}
	return c04Data{l: l, s: string([]byte{verifByte()&0x0f | 0x40}), c: verifBool(), bad: indexOf(prog, "f(bad)") >= 0 && verifBool() || indexOf(prog, "incfail") >= 0 && verifBool(),
		alt: indexOf(prog, "obj.") >= 0 && verifBool(), deep: indexOf(prog, "cd(") >= 0 && verifBool()}
}

func (d c04Data) ctx() Context {
	bad := d.bad
	var obj any = c04T1{ID: 7, Name: d.s}
	if d.alt {
		obj = c04T2{Name: d.s, ID: 7}
	}
	depth := 2
	if d.deep {
		depth = 1200
	}
	return Context{"l": d.l, "s": d.s, "c": d.c, "bad": bad, "lazyname": "inc", "obj": obj, "depth": depth,
		"f": func(b bool) (string, error) {
			if b {
				return "", errHarness
			}
			return "ok", nil
		}}
}

func c04Setup(tb, ls bool) (*TemplateSet, *memLoader) {
	ml := &memLoader{files: map[string]string{
		"inc":  "<{{ s }}>\n{% if c %}i{% endif %}\n",
		"incfail": "head-{{ s }}-{{ f(bad) }}-tail",
		"lib":  "{% macro mm(p) export %}({{ p }}){% endmacro %}",
		"base": "B{% block bb %}base{% endblock %}\n{% if c %}t{% endif %}\n{% block nb %}n{% endblock %}\nx\nE",
	}}
	set := NewSet("verif", ml)
	set.Options.TrimBlocks, set.Options.LStripBlocks = tb, ls
	return set, ml
}

func c04Compile(set *TemplateSet, prog string) (*Template, error) {
	if prog == "\x00extends" {
		set.loaders[0].(*memLoader).files["child"] = "{% extends \"base\" %}{% block bb %}[{{ s }}{{ block.Super }}]{% endblock %}"
		return set.FromFile("child")
	}
	// text with newlines and spaces around the construct so that TrimBlocks/LStripBlocks matter
	return set.FromString("a \n  " + prog + "\n\n b{% if c %} \n{% endif %}\n c")
}

func c04Exec(t *Template, d c04Data) (string, bool) {
	out, err := t.Execute(d.ctx())
	return out, err == nil
}

func c04Known(prog string, tb, ls bool) {
	if verifKnown("C04-cycle-state") {
		verifAssume(indexOf(prog, "{% cycle") < 0)
	}
	if verifKnown("C04-ifchanged-state") {
		verifAssume(indexOf(prog, "{% ifchanged") < 0)
	}
	if verifKnown("C04-trimblocks-rewrite") {
		verifAssume(!tb && !ls)
	}
}

// C04: e1 = Execute(c1); e2 = Execute(c2); e3 = Execute(c1)  =>  e3 == e1 == fresh compile on c1
func HarnessC04() {
	progs := c04Programs()
	prog := progs[verifChoice(len(progs))]
	tb, ls := verifChoice(2) == 1, verifChoice(2) == 1
	c04Known(prog, tb, ls)
	verifObserve("prog", prog)
	verifObserve("trimblocks", tb)
	verifObserve("lstripblocks", ls)
	maxLen := verifParam("len", 2)
	d1, d2 := c04SymData(maxLen, prog), c04SymData(maxLen, prog)
	set, _ := c04Setup(tb, ls)
	tpl, err := c04Compile(set, prog)
	verifAssert(err == nil, "program must compile")
	// another template of the same set, full of the constructs the property leaves out for their
	// randomness: what IT prints is not compared, but executing it must not change anybody else
	noise, err := set.FromString("{% lorem 2 w random %}{% lorem 1 p random %}{% lorem 1 b random %}{% lorem 2 w %}{{ l|random }}")
	verifAssert(err == nil, "noise template must compile")
	o1, ok1 := c04Exec(tpl, d1)
	kept, errb := tpl.ExecuteBytes(d1.ctx()) // a result the caller keeps while the template is used again
	keptCopy := string(kept)
	o2, ok2 := c04Exec(tpl, d2) // arbitrary other context in between, possibly failing
	verifEnvFixed(true)
	noise.Execute(d2.ctx())
	verifEnvFixed(false)
	tpl.ExecuteBlocks(d2.ctx(), []string{"bb", "nb"}) // the other way of executing (parts of) a compiled template
	o3, ok3 := c04Exec(tpl, d1)
	verifAssert((errb == nil) == ok1 && (errb != nil || keptCopy == o1), "ExecuteBytes must give what Execute gives")
	verifAssert(string(kept) == keptCopy, "the bytes returned by ExecuteBytes changed when the template was executed again")
	verifObserve("first", o1)
	verifObserve("third", o3)
	verifAssert(ok1 == ok3, "equal contexts must produce equal errors on a compiled template")
	verifAssert(o1 == o3, "equal contexts must produce equal output on a compiled template (execution altered it)")
	set2, _ := c04Setup(tb, ls)
	fresh, err := c04Compile(set2, prog)
	verifAssert(err == nil, "program must compile again")
	of, okf := c04Exec(fresh, d1)
	verifAssert(okf == ok3 && of == o3, "a used template must render like a freshly compiled one")
	// the execution in between must itself be what a fresh template gives for ITS context
	set3, _ := c04Setup(tb, ls)
	fresh2, err := c04Compile(set3, prog)
	verifAssert(err == nil, "program must compile again")
	of2, okf2 := c04Exec(fresh2, d2)
	verifAssert(okf2 == ok2 && of2 == o2, "an execution after an earlier one (other context) must render like a freshly compiled template on the same context")
	// the same through ExecuteWriter (its buffering must not carry anything over from earlier runs,
	// in particular not from an earlier ExecuteWriter that failed half way)
	tpl.ExecuteWriter(d2.ctx(), &c14Writer{})
	w := &c14Writer{}
	e4 := tpl.ExecuteWriter(d1.ctx(), w)
	verifAssert((e4 == nil) == ok1, "ExecuteWriter after earlier executions: error-ness differs")
	if ok1 {
		verifAssert(string(w.data) == o1, "ExecuteWriter after earlier executions (possibly failed ones) produced different bytes")
	}
}

func c05Known(prog string, tb, ls bool) {
	if verifKnown("C05-cycle-state") {
		verifAssume(indexOf(prog, "{% cycle") < 0)
	}
	if verifKnown("C05-ifchanged-state") {
		verifAssume(indexOf(prog, "{% ifchanged") < 0)
	}
	if verifKnown("C05-trimblocks-rewrite") {
		verifAssume(!tb && !ls)
	}
	if verifKnown("C05-first-template-flag") {
		verifAssume(indexOf(prog, "include lazyname") < 0)
	}
}

// C05: on every path of an execution (and of FromCache / lazy include compilation
// triggered by it) no memory that exists before the execution starts - compiled
// templates, the set, package-level state - is written without holding a lock.
// If nothing shared is written, executions only read shared state and write
// state they allocated themselves, so every interleaving of k executions is
// equivalent to a sequential one and each returns what it returns alone.
func HarnessC05() {
	progs := append(c04Programs(), c05Extra...)
	prog := progs[verifChoice(len(progs))]
	tb, ls := verifChoice(2) == 1, verifChoice(2) == 1
	c05Known(prog, tb, ls)
	verifObserve("prog", prog)
	verifObserve("trimblocks", tb)
	verifObserve("lstripblocks", ls)
	set, _ := c04Setup(tb, ls)
	tpl, err := c04Compile(set, prog)
	verifAssert(err == nil, "program must compile")
	if verifParam("race", 0) == 1 {
		// native demonstration for a monitor finding (go build -race): 4 goroutines share the template
		// the goroutines use different contexts (other list, string, lazily included name)
		var wg sync.WaitGroup
		for g := 0; g < 4; g++ {
			wg.Add(1)
			go func(g int) {
				defer wg.Done()
				d := c04Data{l: []string{"A", "B", "A"}[:g%3+1], s: string([]byte{'S' + byte(g)}), c: g%2 == 0}
				for i := 0; i < 30; i++ {
					ctx := d.ctx()
					if (g+i)%2 == 1 {
						ctx["lazyname"] = "lib"
					}
					tpl.Execute(ctx)
					set.FromCache("inc")
				}
			}(g)
		}
		wg.Wait()
		return
	}
	d := c04SymData(verifParam("len", 2), prog)
	verifEnvFixed(true) // what is written matters here, not which random word is printed
	verifEpoch()
	c04Exec(tpl, d)
	set.FromCache("inc")
	kept, _ := tpl.ExecuteBytes(d.ctx())
	keptCopy := string(kept)
	dd := d // the next executions print something else
	dd.s, dd.c, dd.l = "~", !d.c, append([]string{"~"}, d.l...)
	c04Exec(tpl, dd)
	w := &c14Writer{}
	tpl.ExecuteWriter(dd.ctx(), w)
	verifAssert(string(kept) == keptCopy, "the bytes returned by ExecuteBytes changed while the template was executed again")
	verifMonitor("no-shared-writes")
	verifMonitor("maps-locked")
}
