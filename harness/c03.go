package pongo2

// C03: sandbox - a banned tag or filter cannot be used by any route; bans are
// frozen once the set has created its first template.

import "sort"

var c03Count int // invocations of the harness-registered filter / tag parser

func c03Filter(in *Value, param *Value) (*Value, *Error) {
	c03Count++
	return in, nil
}

type c03Node struct{}

func (c03Node) Execute(ctx *ExecutionContext, w TemplateWriter) *Error {
	c03Count++
	w.WriteString("RAN")
	return nil
}

func c03TagParser(doc *Parser, start *Token, arguments *Parser) (INodeTag, *Error) {
	c03Count++
	for arguments.Remaining() > 0 {
		arguments.Consume()
	}
	return c03Node{}, nil
}

func c03Register() {
	if !FilterExists("verifprobe") {
		RegisterFilter("verifprobe", c03Filter)
	}
	if _, ok := tags["verifprobe"]; !ok {
		RegisterTag("verifprobe", c03TagParser)
	}
}

func c03FilterNames() []string {
	var ns []string
	for n := range filters {
		ns = append(ns, n)
	}
	sort.Strings(ns)
	return ns
}

func c03TagNames() []string {
	var ns []string
	for n := range tags {
		ns = append(ns, n)
	}
	sort.Strings(ns)
	return ns
}

// every syntactic / file-composition route by which filter F could be used
func c03FilterRoutes(F string) ([]string, map[string]string) {
	files := map[string]string{
		"uses":  "{{ x|" + F + " }}",
		"usesm": "{% macro m() export %}{{ x|" + F + " }}{% endmacro %}",
		"deep":  "{% include \"uses\" %}",
		"clean": "{{ x|lower }}",
	}
	return []string{
		"{{ x|" + F + " }}",
		"{{ \"lit\"|" + F + " }}",
		"{{ x|lower|" + F + "|upper }}",
		"{% if x|" + F + " %}a{% endif %}",
		"{% if a %}{% elif x|" + F + " %}{% endif %}",
		"{% for i in x|" + F + " %}{% endfor %}",
		"{% with y=x|" + F + " %}{% endwith %}",
		"{% set y = x|" + F + " %}",
		"{% macro m(p=x|" + F + ") %}{% endmacro %}",
		"{% macro m(p) %}{{ p|" + F + " }}{% endmacro %}",
		"{{ m(x|" + F + ") }}",
		"{% if true %}{% for i in l %}{% with a=1 %}{{ x|" + F + " }}{% endwith %}{% endfor %}{% endif %}",
		"{% block b %}{{ x|" + F + " }}{% endblock %}",
		"{% autoescape off %}{{ x|" + F + " }}{% endautoescape %}",
		"{% spaceless %}{{ x|" + F + " }}{% endspaceless %}",
		"{% filter lower %}{{ x|" + F + " }}{% endfilter %}",
		"{% firstof x|" + F + " %}",
		"{% cycle x|" + F + " y %}",
		"{% ifequal x|" + F + " y %}{% endifequal %}",
		"{% ifchanged x|" + F + " %}{% endifchanged %}",
		"{% widthratio x|" + F + " 1 1 %}",
		"{% include \"clean\" with v=x|" + F + " %}",
		"{{ x + (y|" + F + ") }}",
		"{{ l[x|" + F + "] }}",
		"{% filter " + F + " %}a{% endfilter %}",
		"{% filter lower|" + F + " %}a{% endfilter %}",
		"{% include \"uses\" %}",
		"{% include \"deep\" %}",
		"{% extends \"uses\" %}",
		"{% import \"usesm\" m %}",
		"{% ssi \"uses\" parsed %}",
		"{{ [x|" + F + ", y]|join:\",\" }}",
		"{% for i in [x|" + F + "] %}{% endfor %}",
	}, files
}

// places where today's grammar accepts no filter at all: whatever a tree makes of them, a banned
// filter must not get through (only "rejected, and the banned code did not run" is required here)
func c03OffGrammarRoutes(F string) []string {
	return []string{
		"{{ (x)|" + F + " }}",
		"{% if (x)|" + F + " %}a{% endif %}",
		"{{ (x|lower)|lower|" + F + " }}",
		"{% with v=(x)|" + F + " %}{% endwith %}",
		"{{ x.y|" + F + ".z }}",
		"{{ \"a\" \"b\"|" + F + " }}",
	}
}

// (a) filter ban: every route is rejected at compile time, the banned code never runs,
// unbanned code keeps working, other sets are unaffected, lazy include fails at execution.
func HarnessC03FilterRoutes() {
	c03Register()
	names := c03FilterNames()
	var F string
	if verifParam("allfilters", 0) == 1 {
		F = names[verifChoice(len(names))]
	} else {
		F = []string{"verifprobe", "upper", "safe", "escape"}[verifChoice(4)]
	}
	routes, files := c03FilterRoutes(F)
	off := c03OffGrammarRoutes(F)
	r := verifChoice(len(routes) + len(off))
	verifObserve("filter", F)
	ml := &memLoader{files: files}
	set := NewSet("verif", ml)
	verifAssert(set.BanFilter(F) == nil, "ban must succeed before the first template")
	c03Count = 0
	if r >= len(routes) {
		src := off[r-len(routes)]
		verifObserve("route", src)
		tpl, err := set.FromString(src)
		verifAssert(err != nil, "template using a banned filter compiled (a place where the grammar takes no filter today)")
		if err == nil {
			tpl.Execute(Context{"x": "v"})
		}
		verifAssert(c03Count == 0, "banned filter code ran")
		return
	}
	verifObserve("route", routes[r])
	_, err := set.FromString(routes[r])
	verifAssert(err != nil, "template using a banned filter compiled")
	verifAssert(c03Count == 0, "banned filter code ran")
	// everything not banned keeps working
	other := "lower"
	if F == "lower" {
		other = "upper"
	}
	_, err = set.FromString("{{ x|" + other + " }}{% filter " + other + " %}a{% endfilter %}")
	verifAssert(err == nil, "unbanned filter must keep working")
	// lazy include: compiles, fails when executed, banned code never runs
	lazy, err := set.FromString("{% include name %}")
	verifAssert(err == nil, "lazy include compiles")
	c03Count = 0
	_, err2 := lazy.Execute(Context{"name": "uses", "x": "v"})
	verifAssert(err2 != nil, "banned filter usable through a lazily included file")
	verifAssert(c03Count == 0, "banned filter code ran through a lazy include")
	// other sets are unaffected: the very same template compiles in a set without the ban
	set2 := NewSet("other", ml)
	_, err = set2.FromString(routes[r])
	verifAssert(err == nil, "the same template must compile in another set that has no ban (sets must not share restrictions, and a file route must be served by the set's own loaders)")
	tpl2, err := set2.FromString("{{ x|" + F + " }}")
	verifAssert(err == nil, "a ban must not affect other sets")
	if F == "verifprobe" {
		c03Count = 0
		tpl2.Execute(Context{"x": "v"})
		verifAssert(c03Count == 1, "the probe filter must run in an unrestricted set")
	}
}

func c03TagRoutes(T string) ([]string, map[string]string) {
	use := "{% " + T + " \"f\" %}"
	files := map[string]string{
		"uses":  use,
		"usesm": "{% macro m() export %}" + use + "{% endmacro %}",
		"f":     "F",
		"clean": "c",
	}
	return []string{
		use,
		"{% if true %}" + use + "{% endif %}",
		"{% if a %}{% else %}" + use + "{% endif %}",
		"{% for i in l %}" + use + "{% empty %}{% endfor %}",
		"{% for i in l %}{% empty %}" + use + "{% endfor %}",
		"{% with a=1 %}" + use + "{% endwith %}",
		"{% block b %}" + use + "{% endblock %}",
		"{% macro m() %}" + use + "{% endmacro %}",
		"{% filter lower %}" + use + "{% endfilter %}",
		"{% autoescape off %}" + use + "{% endautoescape %}",
		"{% spaceless %}" + use + "{% endspaceless %}",
		"{% ifequal a b %}" + use + "{% endifequal %}",
		"{% ifchanged %}" + use + "{% endifchanged %}",
		"{% include \"uses\" %}",
		"{% extends \"uses\" %}",
		"{% import \"usesm\" m %}",
		"{% ssi \"uses\" parsed %}",
	}, files
}

// (b) tag ban
func HarnessC03TagRoutes() {
	c03Register()
	names := c03TagNames()
	var T string
	if verifParam("alltags", 0) == 1 {
		T = names[verifChoice(len(names))]
	} else {
		T = []string{"verifprobe", "include", "ssi", "extends", "import", "set"}[verifChoice(6)]
	}
	routes, files := c03TagRoutes(T)
	r := verifChoice(len(routes))
	verifObserve("tag", T)
	verifObserve("route", routes[r])
	ml := &memLoader{files: files}
	set := NewSet("verif", ml)
	verifAssert(set.BanTag(T) == nil, "ban must succeed before the first template")
	c03Count = 0
	_, err := set.FromString(routes[r])
	verifAssert(err != nil, "template using a banned tag compiled")
	verifAssert(c03Count == 0, "banned tag code ran")
	for _, p := range ml.log {
		verifAssert(p != "f", "a banned include/extends/import/ssi fetched its file")
	}
	if T != "if" && T != "include" {
		_, err = set.FromString("{% if true %}x{% endif %}{% include \"clean\" %}")
		verifAssert(err == nil, "unbanned tags must keep working")
	}
	if T != "include" {
		lazy, err := set.FromString("{% include name %}")
		verifAssert(err == nil, "lazy include compiles")
		c03Count = 0
		_, err2 := lazy.Execute(Context{"name": "uses"})
		verifAssert(err2 != nil, "banned tag usable through a lazily included file")
		verifAssert(c03Count == 0, "banned tag code ran through a lazy include")
	}
	set2 := NewSet("other", ml)
	if T == "verifprobe" || T == "include" || T == "ssi" {
		_, err := set2.FromString(routes[r])
		verifAssert(err == nil, "the same template must compile in another set that has no ban")
	}
	if T == "verifprobe" {
		tpl2, err := set2.FromString("{% verifprobe %}")
		verifAssert(err == nil, "a ban must not affect other sets")
		c03Count = 0
		out, _ := tpl2.Execute(nil)
		verifAssert(out == "RAN" && c03Count == 1, "the probe tag must run in an unrestricted set")
	}
}

// (c) histories over {BanTag, BanFilter, FromString, FromFile, FromCache, RenderTemplateString}
// compared with a ban-set + frozen-flag model.
func HarnessC03History() {
	c03Register()
	k := verifParam("k", 3)
	ml := &memLoader{files: map[string]string{"plain": "p"}}
	set := NewSet("verif", ml)
	fnames := []string{"upper", "lower", "nosuchfilter"}
	tnames := []string{"set", "with", "nosuchtag"}
	bannedF := map[string]bool{}
	bannedT := map[string]bool{}
	frozen := false
	for step := 0; step < k; step++ {
		op := verifChoice(6)
		verifObserve("op", op)
		switch op {
		case 0:
			n := fnames[verifChoice(3)]
			err := set.BanFilter(n)
			ok := n != "nosuchfilter" && !frozen && !bannedF[n]
			verifAssert((err == nil) == ok, "BanFilter result differs from the ban-set/frozen model")
			if ok {
				bannedF[n] = true
			}
		case 1:
			n := tnames[verifChoice(3)]
			err := set.BanTag(n)
			ok := n != "nosuchtag" && !frozen && !bannedT[n]
			verifAssert((err == nil) == ok, "BanTag result differs from the ban-set/frozen model")
			if ok {
				bannedT[n] = true
			}
		case 2:
			set.FromString("x")
			frozen = true
		case 3:
			set.FromFile("plain")
			frozen = true
		case 4:
			set.FromCache("plain")
			frozen = true
		default:
			set.RenderTemplateString("x", nil)
			frozen = true
		}
	}
	// the bans in effect are exactly the model's
	for _, n := range []string{"upper", "lower"} {
		_, err := set.FromString("{{ x|" + n + " }}")
		verifAssert((err != nil) == bannedF[n], "filter bans in effect differ from the model (a refused ban must change nothing)")
	}
	_, err := set.FromString("{% set a = 1 %}")
	verifAssert((err != nil) == bannedT["set"], "tag bans in effect differ from the model")
	_, err = set.FromString("{% with a=1 %}{% endwith %}")
	verifAssert((err != nil) == bannedT["with"], "tag bans in effect differ from the model")
}

// (d) the ban applies to exactly the name given: symbolic ban name
func HarnessC03Name() {
	name := symString(5)
	verifObserve("name", name)
	set := NewSet("verif", &memLoader{})
	err := set.BanFilter(name)
	registered := false
	for _, n := range c03FilterNames() {
		if n == name {
			registered = true
		}
	}
	verifAssert((err == nil) == registered, "BanFilter must succeed exactly for registered names")
	_, cerr := set.FromString("{{ x|upper }}")
	verifAssert((cerr != nil) == (name == "upper"), "a ban must hit exactly the named filter")
}
