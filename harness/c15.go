package pongo2

// C15: whitespace control removes exactly the whitespace it names.
// The marked / option-controlled source must render like the source from which
// the named whitespace was deleted by hand (rendered with all options off).

var c15Alphabet = []byte{' ', '\n', 'x', '\t', '\r'}

// c15WS: a whitespace region of 0..max characters over {space, tab, CR, LF, 'x'}.
// Whitespace characters are drawn with verifChoice (concrete on each path);
// the non-whitespace slot is a symbolic byte (any value except whitespace and '{').
func c15WS(max int) string {
	n := verifChoice(max + 1)
	b := make([]byte, n)
	for i := range b {
		c := c15Alphabet[verifChoice(verifParam("alpha", 5))]
		if c == 'x' {
			// any non-whitespace byte that cannot open a delimiter: symbolic, decided by the solver
			c = verifByte()
			verifAssume(c != ' ')
			verifAssume(c != '\t')
			verifAssume(c != '\r')
			verifAssume(c != '\n')
			verifAssume(c != '{')
		}
		b[i] = c
	}
	return string(b)
}

func c15IsWS(b byte) bool { return b == ' ' || b == '\t' || b == '\r' || b == '\n' }
func c15TrimR(s string) string {
	i := len(s)
	for i > 0 && c15IsWS(s[i-1]) {
		i--
	}
	return s[:i]
}
func c15TrimL(s string) string {
	i := 0
	for i < len(s) && c15IsWS(s[i]) {
		i++
	}
	return s[i:]
}
func c15StripNL(s string) string { // TrimBlocks: the first newline directly after a block tag
	if len(s) > 0 && s[0] == '\n' {
		return s[1:]
	}
	return s
}
func c15StripSP(s string) string { // LStripBlocks: spaces and tabs directly before a block tag
	i := len(s)
	for i > 0 && (s[i-1] == ' ' || s[i-1] == '\t') {
		i--
	}
	return s[:i]
}

func c15Render(src string, tb, ls bool) (string, bool) {
	set := NewSet("verif", &memLoader{})
	set.Options.TrimBlocks, set.Options.LStripBlocks = tb, ls
	tpl, err := set.FromString(src)
	if err != nil {
		return "", false
	}
	out, err2 := tpl.Execute(Context{"t": true, "v": "V", "l": []int{1}})
	return out, err2 == nil
}

// side effects of one construct on the text before it (pre), inside it (in) and after it (post)
type c15Construct struct {
	marked, plain            string // source with markers / without
	hasInner                 bool
	stripPreR, stripPostL    bool // '-' on the outer sides
	stripInL, stripInR       bool // '-' on the inner sides
	blockBefore, blockAfter  bool // a block tag ({% %}) borders the text before / after
	innerAfterBlock, innerBeforeBlock bool
}

func c15Pick(w int) (c15Construct, string) {
	k := verifChoice(4)
	verifObserve("construct", k)
	m := func() bool { return verifChoice(2) == 1 }
	switch k {
	case 0: // variable
		l, r := m(), m()
		o, c := "{{", "}}"
		if l {
			o = "{{-"
		}
		if r {
			c = "-}}"
		}
		// the expression directly behind / in front of the marker: blank, identifier, number literal
		body := []string{" v ", "v", "1", "7 ", " 2|add:3"}[verifChoice(5)]
		return c15Construct{marked: o + body + c, plain: "{{" + body + "}}", stripPreR: l, stripPostL: r}, ""
	case 1, 2: // if-block / for-block with inner text
		a, b, c, d := m(), m(), m(), m()
		open, end := " if t ", " endif "
		if k == 2 {
			open, end = " for i in l ", " endfor "
		}
		mk := func(l bool, body string, r bool) string {
			s := "{%"
			if l {
				s += "-"
			}
			s += body
			if r {
				s += "-"
			}
			return s + "%}"
		}
		in := c15WS(verifParam("winner", w))
		return c15Construct{marked: mk(a, open, b) + "\x00" + mk(c, end, d), plain: "{%" + open + "%}\x00{%" + end + "%}", hasInner: true,
			stripPreR: a, stripInL: b, stripInR: c, stripPostL: d, blockBefore: true, blockAfter: true, innerAfterBlock: true, innerBeforeBlock: true}, in
	default: // single-line comment: carries no markers and is no block tag
		return c15Construct{marked: "{# c #}", plain: "{# c #}"}, ""
	}
}

func c15Join(tmpl, inner string) string {
	i := indexOf(tmpl, "\x00")
	if i < 0 {
		return tmpl
	}
	return tmpl[:i] + inner + tmpl[i+1:]
}

// W0 K1 W1 [K2 W2] under TrimBlocks x LStripBlocks and every subset of '-' markers.
func HarnessC15() {
	w := verifParam("w", 1)
	nk := verifParam("constructs", 1)
	tb, ls := verifChoice(2) == 1, verifChoice(2) == 1
	verifObserve("trimblocks", tb)
	verifObserve("lstripblocks", ls)
	marked, stripped := "", ""
	pre := c15WS(w)
	mpre := pre
	// effects pending on the next text region from the construct before it
	pendStripL, pendAfterBlock := false, false
	for i := 0; i < nk; i++ {
		k, inner := c15Pick(w)
		// text before the construct
		t := pre
		if pendStripL {
			t = c15TrimL(t)
		} else if pendAfterBlock && tb {
			t = c15StripNL(t)
		}
		if k.stripPreR {
			t = c15TrimR(t)
		} else if k.blockBefore && ls {
			t = c15StripSP(t)
		}
		minner := inner
		if k.hasInner {
			if k.stripInL {
				inner = c15TrimL(inner)
			} else if tb {
				inner = c15StripNL(inner)
			}
			if k.stripInR {
				inner = c15TrimR(inner)
			} else if ls {
				inner = c15StripSP(inner)
			}
		}
		marked += mpre + c15Join(k.marked, minner)
		stripped += t + c15Join(k.plain, inner)
		pendStripL, pendAfterBlock = k.stripPostL, k.blockAfter
		pre = c15WS(w)
		mpre = pre
	}
	t := pre
	if pendStripL {
		t = c15TrimL(t)
	} else if pendAfterBlock && tb {
		t = c15StripNL(t)
	}
	marked += mpre
	stripped += t
	verifObserve("marked", marked)
	verifObserve("stripped", stripped)
	o1, ok1 := c15Render(marked, tb, ls)
	o2, ok2 := c15Render(stripped, false, false)
	verifAssert(ok1 && ok2, "both sources must render")
	verifObserve("out", o1)
	verifAssert(o1 == o2, "marked/option-controlled source renders differently from the hand-stripped source")
}

// spaceless: removes exactly the whitespace runs that lie between two HTML tags
// of its rendered body (decided through the engine's regexp model; the pattern
// is read from the real code). Document: T W1 T W2 x W3 T W4 T W5 with T simple
// tags, x text, Wi whitespace runs drawn from {space, tab, LF, CR}.
func c15Run(max int) string {
	n := verifChoice(max + 1)
	b := make([]byte, n)
	for i := range b {
		b[i] = []byte{' ', '\n', '\t', '\r'}[verifChoice(4)]
	}
	return string(b)
}

func HarnessC15Spaceless() {
	m := verifParam("w", 1)
	w0, w1, w2, w3, w4, w5 := c15Run(m), c15Run(m), c15Run(m), c15Run(m), c15Run(m), c15Run(m)
	w6 := w0 // the two "bare bracket" positions share one run (keeps the product of runs small)
	t := c09LetterByte() // a symbolic letter inside the tags and as text
	ts := string([]byte{t})
	// q> ... <q : a bare '>' / '<' that does not belong to a tag; the whitespace next to it stays
	body := "q>" + w0 + "<" + ts + ">" + w1 + "<b>" + w2 + ts + w3 + "</b>" + w4 + "</" + ts + ">" + w5 + "y" + w6 + "<q"
	verifObserve("body", body)
	out, ok := render("{% autoescape off %}{% spaceless %}{{ body }}{% endspaceless %}{% endautoescape %}|{% spaceless %}"+w2+"a"+w3+"{% endspaceless %}", Context{"body": body})
	verifAssert(ok, "spaceless must render")
	// between two tags: removed (w1, w4); between a tag and text, or after the last tag: kept (w2, w3, w5)
	want := "q>" + w0 + "<" + ts + "><b>" + w2 + ts + w3 + "</b></" + ts + ">" + w5 + "y" + w6 + "<q" + "|" + w2 + "a" + w3
	verifObserve("out", out)
	verifAssert(out == want, "spaceless must remove exactly the whitespace runs between two HTML tags")
}

func c09LetterByte() byte { return verifByte()&0x0f | 0x61 } // 'a'..'o'

// constructs that leave no token of their own - {# comments #} and the markers of a verbatim block -
// stand between a delimiter and the text beyond them: a '-' marker or a block option acts on the text
// directly next to the delimiter only (here: the empty text), never across the construct, and never
// on the body of the verbatim block.  Document: T0 K1 T1 INV T2 K2 T3.
func HarnessC15Invisible() {
	w := verifParam("w", 1)
	tb, ls := verifChoice(2) == 1, verifChoice(2) == 1
	m := func() bool { return verifChoice(2) == 1 }
	tag := func() (marked, plain string, l, r, block bool) {
		l, r = m(), m()
		o, c, body := "{{", "}}", " v "
		if verifChoice(2) == 1 {
			o, c, body, block = "{%", "%}", " if t ", true
		}
		mo, mc := o, c
		if l {
			mo = o + "-"
		}
		if r {
			mc = "-" + c
		}
		marked, plain = mo+body+mc, o+body+c
		if block {
			marked += "{% endif %}"
			plain += "{% endif %}"
			// the endif directly follows: the text after the unit is "after a block tag" (endif, unmarked)
			r = false
		}
		return
	}
	// the outer texts are fixed (the main harness varies them), the two next to the invisible construct vary
	t0, t1, t2, t3 := "a \t", c15WS(w), c15WS(w), "\n b"
	k1m, k1p, l1, r1, b1 := tag()
	k2m, k2p, l2, r2, b2 := tag()
	inv := "{# c #}"
	switch verifChoice(5) {
	case 1:
		inv = "{% verbatim %}  raw \n{% endverbatim %}"
	case 2:
		inv = "{% verbatim %}{% endverbatim %}"
	case 3:
		inv = "{% verbatim %}\n{{ v }}\t{% endverbatim %}"
	case 4:
		inv = "{# a #}{# b #}"
	}
	s0, s1, s2, s3 := t0, t1, t2, t3
	if l1 {
		s0 = c15TrimR(s0)
	} else if b1 && ls {
		s0 = c15StripSP(s0)
	}
	if r1 {
		s1 = c15TrimL(s1)
	} else if b1 && tb {
		s1 = c15StripNL(s1)
	}
	if l2 {
		s2 = c15TrimR(s2)
	} else if b2 && ls {
		s2 = c15StripSP(s2)
	}
	if r2 {
		s3 = c15TrimL(s3)
	} else if b2 && tb {
		s3 = c15StripNL(s3)
	}
	marked := t0 + k1m + t1 + inv + t2 + k2m + t3
	stripped := s0 + k1p + s1 + inv + s2 + k2p + s3
	verifObserve("trimblocks", tb)
	verifObserve("lstripblocks", ls)
	verifObserve("marked", marked)
	verifObserve("stripped", stripped)
	o1, ok1 := c15Render(marked, tb, ls)
	o2, ok2 := c15Render(stripped, false, false)
	verifAssert(ok1 && ok2, "both sources must render")
	verifObserve("out", o1)
	verifAssert(o1 == o2, "whitespace control reached across a comment or a verbatim marker (or into the verbatim body)")
}
