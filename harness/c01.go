package pongo2

// C01: totality - compiling and executing never panics, crashes or hangs.
// The obligation is engine-level: no Go panic condition may be satisfiable on any
// path (index/slice bounds, nil dereference, division by zero, failed type
// assertion, documented panics of the modelled reflect/strings calls, explicit
// panic), and no path may exhaust the instruction / call-depth budget.

import "sort"

func c01Tags() []string {
	var ns []string
	for n := range tags {
		if n != "verifprobe" {
			ns = append(ns, n)
		}
	}
	sort.Strings(ns)
	return ns
}

func c01Filters() []string {
	var ns []string
	for n := range filters {
		if n != "verifprobe" {
			ns = append(ns, n)
		}
	}
	sort.Strings(ns)
	return ns
}

func c01SmallCtx() Context {
	return Context{"a": 1, "b": "x", "l": []int{1, 2}, "m": map[string]int{"k": 1}, "s": c08Struct{Name: "n"}}
}

func c01CompileExec(src string) {
	set := NewSet("verif", &memLoader{files: map[string]string{"f": "F{{ a }}"}})
	tpl, err := set.FromString(src)
	verifAssert((tpl == nil) != (err == nil), "FromString must return exactly one of template / error")
	if err != nil {
		return
	}
	verifCover("compiled")
	tpl.Execute(nil)
	tpl.Execute(c01SmallCtx())
}

// (1) raw sources: n free bytes, or a sketch with symbolic bytes inside a variable / tag
func HarnessC01Source() {
	a, b := verifParam("a", 1), verifParam("b", 2)
	var src string
	switch verifParam("sketch", 0) {
	case 0:
		src = symString(a)
	case 1:
		src = symString(a) + "{{" + symString(b) + "}}" + symString(1)
	case 2:
		src = symString(a) + "{%" + symString(b) + "%}" + symString(1)
	case 3: // every registered tag with symbolic argument bytes and its end tag
		ts := c01Tags()
		t := ts[verifChoice(len(ts))]
		verifObserve("tag", t)
		src = "{% " + t + " " + symString(b) + " %}x{% end" + t + " %}"
	case 4: // every registered tag: symbolic argument, no end tag
		ts := c01Tags()
		t := ts[verifChoice(len(ts))]
		verifObserve("tag", t)
		src = "{% " + t + " " + symString(b) + " %}"
	case 6: // symbolic bytes as arguments of END tags and intermediate tags (else / elif / empty)
		forms := []string{
			"{% block bb %}x{% endblock \x00 %}", "{% if a %}x{% endif \x00 %}", "{% if a %}x{% else \x00 %}y{% endif %}", "{% if a %}x{% elif \x00 %}y{% endif %}",
			"{% for i in l %}x{% endfor \x00 %}", "{% for i in l %}x{% empty \x00 %}y{% endfor %}", "{% with c=1 %}x{% endwith \x00 %}", "{% filter lower %}x{% endfilter \x00 %}",
			"{% macro mm() %}x{% endmacro \x00 %}", "{% autoescape off %}x{% endautoescape \x00 %}", "{% spaceless %}x{% endspaceless \x00 %}", "{% comment %}x{% endcomment \x00 %}",
			"{% ifequal a b %}x{% endifequal \x00 %}", "{% ifequal a b %}x{% else \x00 %}y{% endifequal %}", "{% ifnotequal a b %}x{% endifnotequal \x00 %}", "{% ifchanged %}x{% endifchanged \x00 %}", "{% ifchanged a %}x{% else \x00 %}y{% endifchanged %}",
		}
		f := forms[verifChoice(len(forms))]
		i := indexOf(f, "\x00")
		src = f[:i] + symString(b) + f[i+1:]
	case 5, 7: // variable with a filter and a symbolic parameter text
		fs := c01Filters()
		f := fs[verifChoice(len(fs))]
		verifObserve("filter", f)
		src = "{{ b|" + f + ":" + symString(b) + " }}"
	default:
		src = symString(a)
	}
	verifObserve("src", src)
	c01CompileExec(src)
}

// (2) resolution: every root of the value universe followed by two steps
var c01Steps = []string{"", ".Name", ".0", ".9", ".x", "[k]", "[ks]", "[\"Name\"]", ".Upper", ".PtrMeth", "()", "(1)", "(k, ks)", ".hidden", ".k"}

func HarnessC01Resolve() {
	u := c08Universe()
	var roots []string
	for n := range u.ctx {
		roots = append(roots, n)
	}
	roots = append(roots, "undefined", "pongo2")
	sort.Strings(roots)
	r := roots[verifChoice(len(roots))]
	p := r + c01Steps[verifChoice(len(c01Steps))] + c01Steps[verifChoice(len(c01Steps))]
	verifObserve("path", p)
	form := verifChoice(4)
	var src string
	switch form {
	case 0:
		src = "{{ " + p + " }}"
	case 1:
		src = "{{ " + p + "|length }}"
	case 2:
		src = "{% if " + p + " %}y{% endif %}"
	default:
		src = "{% for x in " + p + " %}{{ x }}{% endfor %}"
	}
	set := NewSet("verif", &memLoader{})
	tpl, err := set.FromString(src)
	if err != nil {
		return
	}
	tpl.Execute(u.ctx)
}

// (3) every registered filter x input kind x parameter kind
func HarnessC01Filters() {
	fs := c01Filters()
	f := fs[verifChoice(len(fs))]
	verifObserve("filter", f)
	var tv any
	si := int(verifByte()) - 128 // symbolic small integer (formatting a full 64-bit symbolic integer costs 19 digit-count decisions)
	ins := []any{nil, symStringLen(0, verifParam("slen", 2)), si, verifFloat(), verifBool(), []int{si}, []string{}, [2]int{1, 2},
		map[string]int{"k": 1}, c08Struct{Name: "n"}, &c08Inner{"p", 1}, (*c08Inner)(nil), c08Stringer(2), func() int { return 1 }, tv}
	ik := verifChoice(len(ins))
	var p any
	pk := verifChoice(5)
	switch pk {
	case 0:
		p = nil
	case 1: // extremes and the padding-cap boundary (concrete), so that repeat counts stay concrete
		p = []int{-9223372036854775808, 9223372036854775807, -1, 9999, 10000, 10001, 100001}[verifChoice(7)]
	case 2:
		n := verifInt() // symbolic window where the filter formats or repeats
		verifAssume(n >= -3)
		verifAssume(n <= 12)
		p = n
	case 3:
		p = symStringLen(0, verifParam("slen", 2))
	default:
		p = []int{1}
	}
	verifObserve("in", ik)
	verifObserve("param", pk)
	ApplyFilter(f, AsValue(ins[ik]), AsValue(p))
}

// (4) small programs whose identifier slots are filled from {x, y}: names bound by tags may
// collide with the names they are computed from (e.g. {% cycle x as x %}{% cycle x %}).
func HarnessC01Names() {
	nm := func() string { return []string{"x", "y", "forloop", "block"}[verifChoice(4)] } // incl. the names tags bind themselves
	A, B, N := nm(), nm(), nm()
	forms := []string{
		"{% cycle " + A + " " + B + " as " + N + " %}{% cycle " + N + " %}{{ " + N + " }}{% cycle " + N + " %}",
		"{% cycle " + A + " as " + N + " silent %}{% cycle " + N + " %}{{ " + N + " }}",
		"{% for i in l %}{% cycle " + A + " " + B + " as " + N + " %}{% cycle " + N + " %}{% endfor %}{{ " + N + " }}",
		"{% with " + N + "=" + A + " %}{% with " + A + "=" + N + " %}{{ " + N + " }}{{ " + A + " }}{% endwith %}{% endwith %}",
		"{% set " + N + " = " + A + " %}{% set " + A + " = " + N + " %}{{ " + N + " }}{{ " + A + " }}",
		"{% for " + N + " in " + A + " %}{% for " + A + " in " + N + " %}{{ " + A + " }}{% endfor %}{% endfor %}",
		"{% macro " + N + "(" + A + ") %}{{ " + A + " }}{% endmacro %}{{ " + N + "(" + B + ") }}{{ " + N + "(" + N + ") }}",
		"{% firstof " + A + " " + N + " %}{% ifchanged " + N + " %}{{ " + A + " }}{% endifchanged %}",
		"{% cycle " + A + " as " + N + " %}{% with " + A + "=" + N + " %}{% cycle " + N + " %}{{ " + A + " }}{% endwith %}",
		"{% set " + N + " = " + A + " %}{% for i in l %}{{ " + N + " }}{{ forloop.Counter }}{% for j in l %}{{ forloop.Parentloop.Counter }}{% endfor %}{% endfor %}",
		"{% with " + N + "=" + A + " %}{% for i in l %}{{ " + N + " }}{% endfor %}{% block b %}{{ block.Super }}{{ " + N + " }}{% endblock %}{% endwith %}",
		"{% macro m(" + N + ") %}{% for i in l %}{{ " + N + " }}{% endfor %}{% endmacro %}{{ m(" + A + ") }}{{ m() }}",
		// named cycle values that refer to each other: a ring of two and of three values
		"{% cycle 1 " + B + " as " + A + " silent %}{% cycle 2 " + A + " as " + B + " silent %}{% cycle " + A + " %}{% cycle " + B + " %}{{ " + N + " }}",
		"{% cycle 1 y as x silent %}{% cycle 2 z as y silent %}{% cycle 3 x as z silent %}{% cycle x %}{% cycle y %}{% cycle z %}{{ " + N + " }}{% cycle " + N + " %}",
	}
	src := forms[verifChoice(len(forms))]
	verifObserve("src", src)
	set := NewSet("verif", &memLoader{})
	tpl, err := set.FromString(src)
	if err != nil {
		return
	}
	tpl.Execute(nil)
	tpl.Execute(Context{"x": "v", "y": []int{1, 2}, "l": []int{1, 2}})
	tpl.Execute(Context{"x": c08Stringer(1), "y": map[string]int{"k": 1}, "l": "ab"})
}

// (5) binary expressions over operands of every kind (symbolic payloads): whatever the
// operand kinds and values, evaluation returns a value or an error, never a panic.
func HarnessC01Expr() {
	ops := []string{"+", "-", "*", "/", "%", "<", "<=", "==", "!=", "in", "and", "or"}
	op := ops[verifChoice(len(ops))]
	fb := verifByte() // a float of small magnitude: fb/8 - 4  (incl. values strictly between -1 and 1)
	operand := func(name string) any {
		switch verifChoice(8) {
		case 0:
			return int(verifByte()) - 128
		case 1:
			return float64(int(fb)-32) / 8
		case 2:
			return verifFloat()
		case 3:
			d := verifByte()
			verifAssume(d >= '0')
			verifAssume(d <= '9')
			return "0." + string([]byte{d})
		case 4:
			return nil
		case 5:
			return verifBool()
		case 6:
			return []int{1}
		default:
			return symStringLen(0, 1)
		}
	}
	a, b := operand("a"), operand("b")
	src := "{% if a " + op + " b %}y{% endif %}"
	verifObserve("src", src)
	set := NewSet("verif", &memLoader{})
	tpl, err := set.FromString(src)
	verifAssert(err == nil, "binary expression must compile")
	tpl.Execute(Context{"a": a, "b": b})
	neg, err := set.FromString("{% if -a " + op + " b %}{% endif %}{% if not a " + op + " b %}{% endif %}")
	if err == nil {
		neg.Execute(Context{"a": a, "b": b})
	}
}

// (7) templates that name themselves: a file that (directly or through another file) includes,
// extends, imports or ssi-parses itself, at compile time or - through a computed name - at
// execution time. Whatever happens must be an error or output, never unbounded recursion.
func HarnessC01Cycles() {
	shapes := []map[string]string{
		{"a": "x{% include \"a\" %}"},
		{"a": "{% extends \"a\" %}{% block b %}{% endblock %}"},
		{"a": "{% import \"a\" m %}{% macro m() export %}x{% endmacro %}"},
		{"a": "{% ssi \"a\" parsed %}"},
		{"a": "{% include \"b\" %}", "b": "y{% include \"a\" %}"},
		{"a": "{% extends \"b\" %}", "b": "{% extends \"a\" %}"},
		{"a": "{% import \"b\" mb %}{% macro ma() export %}{{ mb() }}{% endmacro %}{{ ma() }}", "b": "{% import \"a\" ma %}{% macro mb() export %}{{ ma() }}{% endmacro %}"},
		{"a": "{% macro m() %}{% include \"a\" %}{% endmacro %}{{ m() }}"},
		{"a": "{% if c %}{% include \"a\" %}{% endif %}"},
		{"a": "{% include \"b\" %}", "b": "{% extends \"c\" %}", "c": "{% block q %}{% include \"a\" %}{% endblock %}"},
		// at execution time, through a computed name
		{"a": "z{% include n %}"},
		{"a": "{% include nb %}", "b": "{% include n %}"},
		{"a": "{% for i in l %}{% include n with l=l %}{% endfor %}"},
		{"a": "{% include n if_exists %}"},
		{"a": "{% include nb %}", "b": "{% ssi \"a\" parsed %}"},
		// not cycles: the same file twice, a diamond - these must keep working
		{"a": "{% include \"b\" %}{% include \"b\" %}", "b": "k"},
		{"a": "{% include \"b\" %}{% include \"c\" %}", "b": "{% include \"d\" %}", "c": "{% include \"d\" %}", "d": "k"},
	}
	k := verifChoice(len(shapes))
	verifObserve("shape", k)
	set := NewSet("verif", &memLoader{files: shapes[k]})
	tpl, err := set.FromFile("a")
	if k >= len(shapes)-2 {
		verifAssert(err == nil, "including one file twice (also through two other files) is not a cycle")
		out, err2 := tpl.Execute(nil)
		verifAssert(err2 == nil && out == "kk", "including one file twice must render it twice")
		return
	}
	if err != nil {
		return
	}
	_, err2 := tpl.Execute(Context{"n": "a", "nb": "b", "c": true, "l": []int{1, 2}})
	verifAssert(err2 != nil, "a template that ends up executing itself without end must fail with an error")
}
