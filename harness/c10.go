package pongo2

// C10: inheritance - the most-derived block wins, Super reaches the parent.
// Chain t0 (base) <- t1 <- ... <- tL served by an in-memory loader. Per level
// and block name the child chooses {inherit, override, override+Super}; block
// markers are symbolic bytes, so the output term tells which definition ran.

type c10Def struct {
	level  int
	marker string
	super  bool
	inner  bool // the definition holds a block of its own in front of its use of Super
}

func c10Letter() string { return string([]byte{verifByte()&0x0f | 0x40}) }

// block names: a (contains nested block n in the base), b (inside an if-branch),
// c (inside a for loop over a 2-element list), n (nested in a), x (new in a child: never rendered)
var c10Names = []string{"a", "b", "c", "n"}

func HarnessC10Chain() {
	L := 1 + verifChoice(verifParam("levels", 2)) // number of child levels
	verifObserve("levels", L)
	files := map[string]string{}
	defs := map[string][]c10Def{}
	m := map[string]string{}
	for _, nm := range c10Names {
		m[nm] = c10Letter()
		defs[nm] = []c10Def{{level: 0, marker: m[nm]}}
	}
	files["t0"] = "<{% block a %}" + m["a"] + "{% block n %}" + m["n"] + "{% endblock %}{% endblock %}|" +
		"{% if t %}{% block b %}" + m["b"] + "{% endblock b %}{% endif %}|" +
		"{% for i in l %}{% block c %}" + m["c"] + "{{ i }}{% endblock %}{% endfor %}>"
	for lv := 1; lv <= L; lv++ {
		src := "junk{% extends \"t" + itoa(lv-1) + "\" %}ignored{{ 1/0 }}"
		for ni, nm := range c10Names {
			if ni >= verifParam("names", 4) {
				break
			}
			switch verifChoice(4) {
			case 0: // inherit
			case 3: // override, with a block of its own inside, then Super
				mk := c10Letter()
				defs[nm] = append(defs[nm], c10Def{level: lv, marker: mk, super: true, inner: true})
				src += "{% block " + nm + " %}" + mk + "{% block y" + itoa(lv) + nm + " %}Y{% endblock %}[{{ block.Super }}]{% endblock %}"
			case 1:
				mk := c10Letter()
				defs[nm] = append(defs[nm], c10Def{level: lv, marker: mk})
				src += "{% block " + nm + " %}" + mk + "{% endblock %} outside "
			default:
				mk := c10Letter()
				defs[nm] = append(defs[nm], c10Def{level: lv, marker: mk, super: true})
				src += "{% block " + nm + " %}" + mk + "[{{ block.Super }}]{% endblock %}"
			}
		}
		if verifChoice(2) == 1 {
			src += "{% block x" + itoa(lv) + " %}NEW{% endblock %}" // a block the base does not have: ignored
		}
		files["t"+itoa(lv)] = src
	}
	ml := &memLoader{files: files}
	set := NewSet("verif", ml)
	tval := verifBool() // the branch holding block b
	ctx := Context{"t": tval, "l": []string{"1", "2"}}
	// reference resolution using levels <= top
	var resolve func(nm string, top int, k int, iter string) string
	resolve = func(nm string, top int, k int, iter string) string {
		// k: index into defs[nm] (restricted to levels <= top), most-derived first call
		ds := defs[nm]
		for k >= 0 && ds[k].level > top {
			k--
		}
		if k < 0 {
			return ""
		}
		d := ds[k]
		out := d.marker
		if d.level == 0 {
			switch nm {
			case "a":
				out += resolve("n", top, len(defs["n"])-1, iter)
			case "c":
				out += iter
			}
			return out
		}
		if d.inner {
			out += "Y"
		}
		if d.super {
			out += "[" + resolve(nm, top, k-1, iter) + "]"
		}
		return out
	}
	// every template of the chain is compiled on its own first, and rendered only then: what one of them
	// renders must not depend on which others of the family were compiled after it
	tpls := make([]*Template, L+1)
	for top := 0; top <= L; top++ {
		tpl, err := set.FromFile("t" + itoa(top))
		verifAssert(err == nil, "every template of the chain must compile")
		tpls[top] = tpl
	}
	for top := 0; top <= L; top++ {
		tpl := tpls[top]
		out, err2 := tpl.Execute(ctx)
		verifAssert(err2 == nil, "every template of the chain must execute (text outside blocks in a child is ignored, never evaluated)")
		bpart := ""
		if tval {
			bpart = resolve("b", top, len(defs["b"])-1, "")
		}
		want := "<" + resolve("a", top, len(defs["a"])-1, "") + "|" + bpart + "|" +
			resolve("c", top, len(defs["c"])-1, "1") + resolve("c", top, len(defs["c"])-1, "2") + ">"
		if top == L {
			verifObserve("out", out)
		}
		verifAssert(out == want, "rendering differs from the reference block resolution")
	}
	// rendering the parent directly is unaffected by its children having been compiled
	tpl0, err := set.FromFile("t0")
	verifAssert(err == nil, "base compiles")
	out0, _ := tpl0.Execute(ctx)
	b0 := ""
	if tval {
		b0 = m["b"]
	}
	verifAssert(out0 == "<"+m["a"]+m["n"]+"|"+b0+"|"+m["c"]+"1"+m["c"]+"2>", "rendering the base directly must be unaffected by its children")
}

// invalid shapes are compile errors
func HarnessC10Invalid() {
	k := verifChoice(6)
	verifObserve("shape", k)
	files := map[string]string{
		"base":  "{% block a %}A{% endblock %}",
		"base2": "{% block a %}B{% endblock %}",
	}
	var src string
	wantErr := true
	switch k {
	case 0:
		src = "{% extends \"base\" %}{% extends \"base2\" %}"
	case 1:
		src = "{% extends \"base\" %}{% block a %}{% extends \"base2\" %}{% endblock %}"
	case 2:
		src = "{% if true %}{% extends \"base\" %}{% endif %}"
	case 3:
		src = "{% block a %}1{% endblock %}{% block a %}2{% endblock %}"
	case 4:
		src = "{% extends \"base\" %}{% block a %}1{% endblock %}{% block a %}2{% endblock %}"
	default:
		src = "{% extends \"base\" %}{% block a %}fine{% endblock %}"
		wantErr = false
	}
	set := NewSet("verif", &memLoader{files: files})
	_, err := set.FromString(src)
	verifAssert((err != nil) == wantErr, "second/nested extends and duplicate block names must be compile errors (and a valid child must compile)")
}
