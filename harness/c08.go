package pongo2

// C08: names resolve through maps, sequences, structs, pointers, methods, calls.
// C01 (resolution part): no access path, valid or invalid, may panic.
// Universe of context values with SYMBOLIC payloads and symbolic subscripts; for
// each access path the expectation is written without reflect (a type-directed
// reference resolver specialised to the path).

import (
	"errors"
	"fmt"
	"time"
)

type c08Inner struct {
	Name string
	N    int
}

type c08Struct struct {
	Name   string
	Num    int
	hidden string
	Ptr    *c08Inner
	NilPtr *c08Inner
	In     c08Inner
	List   []int
	M      map[string]int
	Any    any
}

// embedding: fields promoted from embedded structs (exported and unexported embedded types, a pointer, two levels)
type c08base struct {
	ID    int
	Title string
	low   string
}
type C08Pub struct{ Tag string }
type c08mid struct{ C08Pub }
type c08Doc struct {
	c08base
	C08Pub
	*c08Inner
	Body string
}
type c08Doc2 struct {
	c08mid
	Body string
}
type c08NilEmb struct {
	*c08Inner
	Body string
}

func (b c08base) Caption() string { return "C" + b.Title }

func (s c08Struct) Upper() string         { return "U" + s.Name }
func (s *c08Struct) PtrMeth() int {
	if s == nil {
		return -1 // total: callable on a nil receiver
	}
	return s.Num + 1
}
func (s c08Struct) Add(a, b int) int      { return a + b }
func (s c08Struct) Fail() (string, error) { return "", errors.New("boom") }
func (s c08Struct) Val() *Value           { return AsValue("vv") }

type c08Stringer int

func (v c08Stringer) String() string { return "S" + itoa(int(v)) }

const (
	c08OK = iota
	c08Err
)

type c08Case struct {
	path string
	kind int
	out  func() string // evaluated only for the chosen case (keeps forks on symbolic subscripts local to it)
}

type c08U struct {
	s0, s1, s2, sk, ks string
	i0, i1, n, k       int
	ctx                Context
}

func c08Letter() string { return string([]byte{verifByte()&0x0f | 0x40}) }

func c08Universe() *c08U {
	u := &c08U{s0: c08Letter(), s1: c08Letter(), s2: c08Letter(), sk: c08Letter()}
	u.i0, u.i1, u.n = int(verifByte()), int(verifByte()), int(verifByte())
	u.k = verifInt() // subscript value: any 64-bit integer
	kb := verifByte()
	verifAssume(kb >= 'a')
	verifAssume(kb <= 'z')
	u.ks = string([]byte{kb}) // symbolic 1-byte key
	st := c08Struct{Name: u.s0, Num: u.n, hidden: u.s1, Ptr: &c08Inner{u.s1, u.i0}, In: c08Inner{u.s2, u.i1}, List: []int{u.i0, u.i1}, M: map[string]int{"k": u.i0}, Any: u.sk}
	var nilp *c08Struct
	pin := &c08Inner{u.s2, u.i1}
	u.ctx = Context{
		"nilv": nil, "str": u.s0 + u.s1, "i": u.n, "b": true, "f": 2.5,
		"l":    []string{u.s0, u.s1, u.s2},
		"esl":  []int{},
		"arr":  [2]int{u.i0, u.i1},
		"parr": &[2]int{u.i0, u.i1},
		"m":    map[string]any{"k": u.sk, "n": u.n, "nil": nil, "inner": map[string]int{"z": u.i1}},
		"mi":   map[int]string{1: u.s0, 2: u.s1},
		"mf":   map[float64]string{1.5: u.s0},
		"st":   st, "pst": &st, "nilp": nilp, "pp": &pin,
		"sg": c08Stringer(3), "tm": time.Date(2020, 1, 2, 3, 4, 5, 0, time.UTC),
		"anys":  []any{u.s0, u.n, nil, []int{u.i1}},
		"fn0":   func() string { return u.s0 },
		"fn2":   func(a, b int) int { return a*3 + b },
		"fnv":   func(xs ...int) int { return len(xs) },
		"fnval": func(v *Value) *Value { return AsValue(v.Integer() + 1) },
		"fnerr": func() (int, error) { return 0, errors.New("e") },
		"fnok":  func() (string, error) { return u.s1, nil },
		"fnctx": func(c *ExecutionContext, a int) int { return a },
		"fnctxv": func(c *ExecutionContext, xs ...int) int {
			t := 0
			for _, x := range xs {
				t += x
			}
			return t + len(xs)*100
		},
		"fnctxav": func(c *ExecutionContext, a int, xs ...int) int { return a*10 + len(xs) },
		"fnva": func(a string, xs ...int) string { return a + itoa(len(xs)) },
		"fnbad": func() (int, int, int) { return 1, 2, 3 },
		"k":     u.k, "ks": u.ks, "one": 1,
		"doc":  c08Doc{c08base{u.n, u.s0, u.s2}, C08Pub{u.s1}, &c08Inner{u.s2, u.i1}, u.sk},
		"pdoc": &c08Doc{c08base{u.n, u.s0, u.s2}, C08Pub{u.s1}, &c08Inner{u.s2, u.i1}, u.sk},
		"doc2": c08Doc2{c08mid{C08Pub{u.s1}}, u.sk},
		"nemb": c08NilEmb{nil, u.sk},
		"kf":   "Title",
		"fnstr": func(s fmt.Stringer) string {
			if s == nil {
				return "nil"
			}
			return s.String()
		},
		"fnany": func(a any) string {
			if a == nil {
				return "nil"
			}
			return "any"
		},
		"fnptr": func(p *c08Struct) int { return p.PtrMeth() },
		"many":  map[any]string{1: u.s0, "k": u.s1},
		"nv":   (*Value)(nil), "fnnil": func() *Value { return nil }, "vals": []*Value{AsValue(u.s0), nil},
	}
	return u
}

func (u *c08U) cases() []c08Case {
	ok := func(p, o string) c08Case { return c08Case{p, c08OK, func() string { return o }} }
	okf := func(p string, f func() string) c08Case { return c08Case{p, c08OK, f} }
	er := func(p string) c08Case { return c08Case{p, c08Err, nil} }
	l := []string{u.s0, u.s1, u.s2}
	at := func(n int, f func(int) string) func() string {
		return func() string {
			if u.k >= 0 && u.k < n {
				return f(u.k)
			}
			return ""
		}
	}
	mkey := func() string {
		switch u.ks {
		case "k":
			return u.sk
		case "n":
			return itoa(u.n)
		}
		return ""
	}
	mik := func() string {
		switch u.k {
		case 1:
			return u.s0
		case 2:
			return u.s1
		}
		return ""
	}
	return []c08Case{
		// nil, scalars
		ok("nilv", ""), ok("nilv.x", ""), ok("nilv.0", ""), ok("nilv[0]", ""), ok("undefined", ""), ok("undefined.x.y", ""),
		ok("str", u.s0+u.s1), ok("str.9", ""),
		er("str.x"), ok("i", itoa(u.n)), er("i.0"), er("i.x"), er("i[k]"), er("b.x"),
		// sequences
		ok("l.0", u.s0), ok("l.2", u.s2), ok("l.3", ""), okf("l[k]", at(3, func(i int) string { return l[i] })), er("l.x"), ok("l|length", "3"),
		ok("esl.0", ""), ok("esl[k]", ""),
		ok("arr.1", itoa(u.i1)), okf("arr[k]", at(2, func(i int) string { return itoa([]int{u.i0, u.i1}[i]) })), ok("arr.5", ""), ok("arr|length", "2"),
		ok("parr.1", itoa(u.i1)), okf("parr[k]", at(2, func(i int) string { return itoa([]int{u.i0, u.i1}[i]) })), er("parr.x"),
		// maps
		ok("m.k", u.sk), ok("m.n", itoa(u.n)), ok("m.nil", ""), ok("m.nil.x", ""), ok("m.zz", ""), okf("m[ks]", mkey), ok("m[k]", ""), ok("m.inner.z", itoa(u.i1)), ok("m.inner.q", ""),
		ok("m|length", "4"),
		okf("mi[k]", mik), ok("mi[ks]", ""), ok("mi.x", ""), ok("mf.x", ""), ok("mf[k]", ""), ok("mf[f]", ""),
		// structs, pointers
		ok("st.Name", u.s0), ok("st.Num", itoa(u.n)), ok("st.hidden", ""), ok("st.Nope", ""), ok("st.Ptr.Name", u.s1), ok("st.Ptr.N", itoa(u.i0)),
		ok("st.NilPtr", ""), ok("st.NilPtr.Name", ""), ok("st.In.N", itoa(u.i1)), ok("st.List.1", itoa(u.i1)), okf("st.List[k]", at(2, func(i int) string { return itoa([]int{u.i0, u.i1}[i]) })),
		ok("st.M.k", itoa(u.i0)), ok("st.Any", u.sk), ok("st[\"Name\"]", u.s0), ok("st[\"hidden\"]", ""), ok("st[ks]", ""), er("st.0"),
		ok("pst.Name", u.s0), ok("pst.hidden", ""), ok("pst.In.Name", u.s2), ok("nilp", ""), ok("nilp.Name", ""),
		// methods and calls
		ok("st.Upper", "U"+u.s0), ok("st.Upper()", "U"+u.s0), ok("pst.Upper", "U"+u.s0), ok("pst.PtrMeth", itoa(u.n+1)), ok("st.PtrMeth", ""),
		ok("st.Add(1, 2)", "3"), ok("st.Add(i, one)", itoa(u.n+1)), er("st.Add(1)"), er("st.Add(1, 2, 3)"), er("st.Add(1, \"x\")"), er("st.Fail()"), ok("st.Val()", "vv"),
		ok("nilp.Upper", ""),
		ok("sg", "S3"), ok("tm.Year()", "2020"),
		ok("anys.0", u.s0), ok("anys.1", itoa(u.n)), ok("anys.2", ""), ok("anys.2.x", ""), ok("anys.3.0", itoa(u.i1)),
		ok("fn0()", u.s0), ok("fn0", u.s0), er("fn0(1)"), ok("fn2(i, one)", itoa(u.n*3+1)), er("fn2(2)"), er("fn2(\"a\", 3)"), er("fn2(nilv, 3)"),
		ok("fnv()", "0"), ok("fnv(1, 2, 3)", "3"), er("fnv(\"a\")"), ok("fnval(i)", itoa(u.n+1)), er("fnerr()"), ok("fnok()", u.s1), ok("fnctx(5)", "5"), er("fnctx()"), er("fnbad()"),
		ok("fnctxv()", "0"), ok("fnctxv(i)", itoa(u.n+100)), ok("fnctxv(i, one, one)", itoa(u.n+302)), er("fnctxv(\"a\")"),
		ok("fnctxav(i)", itoa(u.n*10)), ok("fnctxav(i, one)", itoa(u.n*10+1)), er("fnctxav()"),
		ok("fnva(ks)", u.ks+"0"), ok("fnva(ks, one, i)", u.ks+"2"), er("fnva(one)"),
		er("i()"), er("str()"), ok("nilv()", ""),
		// promoted fields and methods of embedded structs
		ok("doc.Body", u.sk), ok("doc.ID", itoa(u.n)), ok("doc.Title", u.s0), ok("doc[\"Title\"]", u.s0), ok("doc[kf]", u.s0), ok("doc.low", ""), ok("doc.Tag", u.s1),
		ok("doc.C08Pub.Tag", u.s1), ok("doc.Name", u.s2), ok("doc.N", itoa(u.i1)), ok("doc.Caption", "C"+u.s0), ok("doc.c08base", ""), ok("doc.c08base.Title", ""),
		ok("pdoc.Title", u.s0), ok("pdoc.Name", u.s2), ok("pdoc.Tag", u.s1), ok("pdoc[ks]", ""), ok("doc2.Tag", u.s1), ok("doc2.Body", u.sk), ok("doc2.c08mid.Tag", ""),
		ok("nv", ""), ok("nv.x", ""), ok("fnnil()", ""), ok("fnnil", ""), ok("vals.0", u.s0), ok("vals.1", ""), ok("fnval(nv)", "1"),
		// interface-typed and pointer-typed parameters; keys that cannot be map keys
		ok("fnstr(sg)", "S3"), er("fnstr(i)"), er("fnstr(str)"), ok("fnstr(nilv)", "nil"), ok("fnany(i)", "any"), ok("fnany(nilv)", "nil"), ok("fnany(l)", "any"),
		ok("fnptr(pst)", itoa(u.n+1)), ok("fnptr(nilp)", "-1"), er("fnptr(st)"), er("fnptr(i)"),
		okf("many[k]", func() string {
			if u.k == 1 {
				return u.s0
			}
			return ""
		}), ok("many.k", u.s1), ok("many[l]", ""), ok("many[m]", ""), ok("many[fn0]", ""), ok("mi[l]", ""), ok("m[l]", ""), ok("many[arr]", ""),
		ok("nemb.Body", u.sk), ok("nemb.Name", ""), ok("nemb.c08Inner", ""),
	}
}

func c08Known(p string) {
	for id, paths := range map[string][]string{
		"C08-unexported-field":   {"st.hidden", "st[\"hidden\"]", "pst.hidden"},
		"C08-map-key-type":       {"mi.x", "mf.x"},
		"C08-nil-receiver-value": {"nilp.Upper"},
		"C08-ptr-method-on-value": {"st.PtrMeth"},
	} {
		if verifKnown(id) {
			for _, q := range paths {
				verifAssume(p != q)
			}
		}
	}
}

func HarnessC08() {
	u := c08Universe()
	cs := u.cases()
	c := cs[verifChoice(len(cs))]
	c08Known(c.path)
	verifObserve("path", c.path)
	set := NewSet("verif", &memLoader{})
	set.Globals["one"] = 99 // shadowed by the context entry
	set.Globals["g"] = "G"
	tpl, err := set.FromString("{% autoescape off %}{{ " + c.path + " }}{% endautoescape %}")
	verifAssert(err == nil, "access path must compile")
	out, err2 := tpl.Execute(u.ctx)
	if c.kind == c08Err {
		verifAssert(err2 != nil, "wrong arity/argument type or indexing a scalar must be an execution error")
		return
	}
	verifAssert(err2 == nil, "a missing key, out-of-range index, nil on the way or inaccessible field must yield the empty value, not an error")
	verifObserve("out", out)
	want := c.out()
	verifAssert(out == want, "access path denotes a different value than following its steps through the context")
	// {% if path %} agrees with the truthiness of the denoted value for the empty case
	if want == "" {
		o2, ok := render("{% if "+c.path+" %}T{% else %}F{% endif %}", u.ctx)
		verifAssert(ok && o2 == "F", "{% if path %} on an empty value must take the else branch")
	}
}

// shadowing: names set by tags shadow context keys, which shadow globals
func HarnessC08Shadow() {
	a, b, c := c08Letter(), c08Letter(), c08Letter()
	set := NewSet("verif", &memLoader{})
	set.Globals["x"] = a
	set.Globals["y"] = a
	out, err := set.RenderTemplateString("{{ x }}{{ y }}{% with x=z %}{{ x }}{% endwith %}{% set y = z %}{{ y }}{{ x }}", Context{"x": b, "z": c})
	verifAssert(err == nil, "render")
	verifAssert(out == b+a+c+c+b, "tag-bound names shadow context keys, which shadow globals")
	// a tag-bound name shadows also when its value is nil / empty: an omitted macro parameter, a nil argument, set to nothing
	out, err = set.RenderTemplateString("{% macro show(x) %}[{{ x }}]{% endmacro %}{{ show() }}{{ show(nothing) }}{{ show(z) }}{% with y=nothing %}<{{ y }}>{% endwith %}{% set x = nothing %}({{ x }})", Context{"x": b, "z": c})
	verifAssert(err == nil, "render")
	verifAssert(out == "[][]["+c+"]<>()", "a tag-bound name must shadow the context key and the global even when it is bound to nil")
}
