package pongo2

import "math"

// C18: built-in data filters match their reference semantics. Real filter code
// vs. a small reference function, same symbolic inputs, solver decides equality.

func c18Apply(name string, in any, p any) (*Value, bool) {
	v, err := ApplyFilter(name, AsValue(in), AsValue(p))
	if err != nil {
		return nil, false
	}
	return v, true
}

func c18Spaces(n int) string {
	b := make([]byte, n)
	for i := range b {
		b[i] = ' '
	}
	return string(b)
}

// symbolic "word" characters: letters only, so that Fields/Title models are exact
func c18Word(n int) string {
	b := make([]byte, n)
	for i := range b {
		b[i] = verifByte()&0x1f | 0x40 // '@'..'_'
	}
	return string(b)
}

// ---- slice: Python slicing ----
// part: omitted | [-]d with a symbolic digit d
func c18Bound() (string, bool, int) {
	switch verifChoice(3) {
	case 0:
		return "", false, 0
	case 1:
		d := verifByte()
		verifAssume(d >= '0')
		verifAssume(d <= '9')
		return string([]byte{d}), true, int(d - '0')
	default:
		d := verifByte()
		verifAssume(d >= '0')
		verifAssume(d <= '9')
		return "-" + string([]byte{d}), true, -int(d-'0')
	}
}

func c18PySlice(n int, hasA bool, a int, hasB bool, b int) (int, int) {
	lo, hi := 0, n
	if hasA {
		lo = a
		if lo < 0 {
			lo += n
			if lo < 0 {
				lo = 0
			}
		}
		if lo > n {
			lo = n
		}
	}
	if hasB {
		hi = b
		if hi < 0 {
			hi += n
			if hi < 0 {
				hi = 0
			}
		}
		if hi > n {
			hi = n
		}
	}
	if hi < lo {
		hi = lo
	}
	return lo, hi
}

func HarnessC18Slice() {
	n := verifChoice(verifParam("len", 3) + 1)
	as, hasA, a := c18Bound()
	bs, hasB, b := c18Bound()
	param := as + ":" + bs
	verifObserve("param", param)
	lo, hi := c18PySlice(n, hasA, a, hasB, b)
	kind := verifChoice(4)
	verifObserve("kind", kind)
	switch kind {
	case 0: // ASCII string, symbolic bytes
		s := c18Word(n)
		v, ok := c18Apply("slice", s, param)
		verifAssert(ok, "slice must not fail on a well-formed argument")
		verifAssert(v.String() == s[lo:hi], "slice of a string differs from Python slicing")
	case 1: // multi-byte text: bounds count characters
		rs := []rune{'a', 'é', '€', 'z'}[:n%5]
		if n > 4 {
			rs = []rune{'a', 'é', '€', 'z'}
		}
		l2, h2 := c18PySlice(len(rs), hasA, a, hasB, b)
		v, ok := c18Apply("slice", string(rs), param)
		verifAssert(ok, "slice must not fail on a well-formed argument")
		verifAssert(v.String() == string(rs[l2:h2]), "slice of multi-byte text must count characters")
	case 2: // slice of ints with symbolic items
		l := make([]int, n)
		for i := range l {
			l[i] = verifInt()
		}
		v, ok := c18Apply("slice", l, param)
		verifAssert(ok, "slice must not fail on a well-formed argument")
		verifAssert(v.Len() == hi-lo, "slice of a list has the wrong length")
		for i := lo; i < hi; i++ {
			verifAssert(v.Index(i-lo).Integer() == l[i], "slice of a list returned the wrong element")
		}
	default: // array value (not addressable)
		if verifKnown("C18-slice-array-panic") {
			verifAssume(false)
		}
		arr := [3]int{verifInt(), verifInt(), verifInt()}
		l2, h2 := c18PySlice(3, hasA, a, hasB, b)
		v, ok := c18Apply("slice", arr, param)
		verifAssert(ok, "slice must not fail on a well-formed argument")
		verifAssert(v.Len() == h2-l2, "slice of an array has the wrong length")
		for i := l2; i < h2; i++ {
			verifAssert(v.Index(i-l2).Integer() == arr[i], "slice of an array returned the wrong element")
		}
	}
}

// ---- sequence operations ----
func HarnessC18Seq() {
	n := verifChoice(verifParam("len", 3) + 1)
	s := c18Word(n)
	verifObserve("s", s)
	switch verifChoice(9) {
	case 8: // multi-byte text: every sequence operation counts characters, not bytes
		u := []string{"a\u00e9\u20ac", "\u4f60\u597d", "\u00e4b"}[verifChoice(3)]
		rs := []rune(u)
		sep := c18Word(1)
		v, ok := c18Apply("join", u, sep)
		want := ""
		for i, r := range rs {
			if i > 0 {
				want += sep
			}
			want += string(r)
		}
		verifAssert(ok && v.String() == want, "join of multi-byte text must join characters")
		v, ok = c18Apply("first", u, nil)
		verifAssert(ok && v.String() == string(rs[0]), "first of multi-byte text")
		v, ok = c18Apply("last", u, nil)
		verifAssert(ok && v.String() == string(rs[len(rs)-1]), "last of multi-byte text")
		v, ok = c18Apply("make_list", u, nil)
		verifAssert(ok && v.Len() == len(rs) && v.Index(1).String() == string(rs[1]), "make_list of multi-byte text")
		v, ok = c18Apply("length_is", u, len(rs))
		verifAssert(ok && v.Bool(), "length_is counts characters")
		v, ok = c18Apply("cut", u, string(rs[0]))
		verifAssert(ok && v.String() == string(rs[1:]), "cut of a multi-byte character")
		v, ok = c18Apply("truncatechars", u+"xyz", len(rs)+2)
		verifAssert(ok && v.String() == string(rs[:len(rs)-1])+"...", "truncatechars counts characters")
		k := verifInt()
		verifAssume(k >= 0)
		verifAssume(k <= 6)
		v, ok = c18Apply("center", u, k)
		tot := len(rs)
		if k > tot {
			tot = k
		}
		verifAssert(ok && len([]rune(v.String())) == tot, "center pads multi-byte text to the width in characters")
	case 0:
		v, ok := c18Apply("first", s, nil)
		want := ""
		if n > 0 {
			want = s[:1]
		}
		verifAssert(ok && v.String() == want, "first of a string")
		v, ok = c18Apply("last", s, nil)
		want = ""
		if n > 0 {
			want = s[n-1:]
		}
		verifAssert(ok && v.String() == want, "last of a string")
	case 1:
		v, ok := c18Apply("length", s, nil)
		verifAssert(ok && v.Integer() == n, "length of a string")
		k := verifInt()
		v, ok = c18Apply("length_is", s, k)
		verifAssert(ok && v.Bool() == (k == n), "length_is")
		v, ok = c18Apply("length", "aé€", nil)
		verifAssert(ok && v.Integer() == 3, "length counts characters, not bytes")
	case 2:
		sep := c18Word(verifChoice(2) + 1)
		v, ok := c18Apply("join", s, sep)
		want := ""
		for i := 0; i < n; i++ {
			if i > 0 {
				want += sep
			}
			want += s[i : i+1]
		}
		verifAssert(ok && v.String() == want, "join of a string's characters")
		l := []string{c18Word(1), c18Word(2), c18Word(1)}[:n%4]
		v, ok = c18Apply("join", l, sep)
		want = ""
		for i, x := range l {
			if i > 0 {
				want += sep
			}
			want += x
		}
		verifAssert(ok && v.String() == want, "join of a list")
	case 3:
		v, ok := c18Apply("make_list", s, nil)
		verifAssert(ok && v.Len() == n, "make_list length")
		for i := 0; i < n; i++ {
			verifAssert(v.Index(i).String() == s[i:i+1], "make_list element")
		}
	case 4:
		c := c18Word(1)
		v, ok := c18Apply("cut", s, c)
		want := ""
		for i := 0; i < n; i++ {
			if s[i] != c[0] {
				want += s[i : i+1]
			}
		}
		verifAssert(ok && v.String() == want, "cut removes exactly the occurrences of its argument")
	case 5:
		c := c18Word(1)
		v, ok := c18Apply("split", s, c)
		verifAssert(ok, "split")
		// reference: pieces between occurrences of c
		var pieces []string
		cur := ""
		for i := 0; i < n; i++ {
			if s[i] == c[0] {
				pieces = append(pieces, cur)
				cur = ""
			} else {
				cur += s[i : i+1]
			}
		}
		pieces = append(pieces, cur)
		verifAssert(v.Len() == len(pieces), "split: number of pieces")
		for i, p := range pieces {
			verifAssert(v.Index(i).String() == p, "split: piece")
		}
	case 6:
		l := make([]int, n)
		for i := range l {
			l[i] = verifInt()
		}
		v, ok := c18Apply("first", l, nil)
		if n > 0 {
			verifAssert(ok && v.Integer() == l[0], "first of a list")
			v, ok = c18Apply("last", l, nil)
			verifAssert(ok && v.Integer() == l[n-1], "last of a list")
		} else {
			verifAssert(ok && v.String() == "", "first of an empty list is empty")
		}
		v, ok = c18Apply("length", l, nil)
		verifAssert(ok && v.Integer() == n, "length of a list")
	default:
		v, ok := c18Apply("upper", s, nil)
		verifAssert(ok && len(v.String()) == n, "upper keeps the length")
		w, ok2 := c18Apply("lower", s, nil)
		verifAssert(ok2 && len(w.String()) == n, "lower keeps the length")
		for i := 0; i < n; i++ {
			c, u, l := s[i], v.String()[i], w.String()[i]
			if c >= 'A' && c <= 'Z' {
				verifAssert(u == c && l == c+32, "upper/lower of an upper-case letter")
			} else if c >= 'a' && c <= 'z' {
				verifAssert(u == c-32 && l == c, "upper/lower of a lower-case letter")
			} else {
				verifAssert(u == c && l == c, "upper/lower must not alter non-letters")
			}
		}
	}
}

// ---- shape filters with a symbolic width / count ----
func HarnessC18Shape() {
	n := verifChoice(verifParam("len", 3) + 1)
	s := c18Word(n)
	w := verifInt()
	verifAssume(w >= -3)
	verifAssume(w <= 8)
	verifObserve("s", s)
	verifObserve("w", w)
	switch verifChoice(6) {
	case 0: // center: text between balanced runs of spaces (either balanced split)
		v, ok := c18Apply("center", s, w)
		verifAssert(ok, "center")
		out := v.String()
		total := n
		if w > n {
			total = w
		}
		pad := total - n
		l1, l2 := pad/2, pad-pad/2
		verifAssert(out == c18Spaces(l1)+s+c18Spaces(pad-l1) || out == c18Spaces(l2)+s+c18Spaces(pad-l2), "center: kept text between balanced runs of spaces, total width max(len, width)")
	case 1: // ljust
		v, ok := c18Apply("ljust", s, w)
		pad := 0
		if w > n {
			pad = w - n
		}
		verifAssert(ok && v.String() == s+c18Spaces(pad), "ljust: text then spaces up to the width")
	case 2: // rjust
		if verifKnown("C18-rjust-negative") {
			verifAssume(w >= 0)
		}
		v, ok := c18Apply("rjust", s, w)
		pad := 0
		if w > n {
			pad = w - n
		}
		verifAssert(ok && v.String() == c18Spaces(pad)+s, "rjust: spaces then text up to the width (padding only on the left)")
	case 3: // truncatechars
		v, ok := c18Apply("truncatechars", s, w)
		verifAssert(ok, "truncatechars")
		out := v.String()
		if w <= 0 || w >= n {
			verifAssert(out == s, "truncatechars: nothing to truncate")
		} else {
			verifAssert(len(out) <= w, "truncatechars: longer than the limit")
			if w >= 3 {
				verifAssert(out == s[:w-3]+"...", "truncatechars: kept text + ellipsis")
			} else {
				verifAssert(out == s[:w], "truncatechars: kept text")
			}
		}
	case 4: // truncatewords / wordcount on "w1 w2 w3" with symbolic words
		a, b, c := c18Word(1), c18Word(2), c18Word(1)
		text := a + " " + b + "  " + c
		v, ok := c18Apply("wordcount", text, nil)
		verifAssert(ok && v.Integer() == 3, "wordcount")
		v, ok = c18Apply("truncatewords", text, w)
		verifAssert(ok, "truncatewords")
		var want string
		switch {
		case w <= 0:
			want = ""
		case w == 1:
			want = a + " ..."
		case w == 2:
			want = a + " " + b + " ..."
		default:
			want = a + " " + b + " " + c
		}
		verifAssert(v.String() == want, "truncatewords: first n words, ellipsis iff truncated")
	default: // capfirst, linebreaksbr, linenumbers
		v, ok := c18Apply("capfirst", s, nil)
		verifAssert(ok && len(v.String()) == n, "capfirst keeps the length")
		if n > 0 {
			c := s[0]
			u := v.String()[0]
			if c >= 'a' && c <= 'z' {
				verifAssert(u == c-32, "capfirst upper-cases the first letter")
			} else {
				verifAssert(u == c, "capfirst must not alter a non-lower-case first character")
			}
			verifAssert(v.String()[1:] == s[1:], "capfirst must not alter the rest")
		}
		t := s + "\n" + s
		v, ok = c18Apply("linebreaksbr", t, nil)
		verifAssert(ok && v.String() == s+"<br />"+s, "linebreaksbr")
		v, ok = c18Apply("linenumbers", t, nil)
		verifAssert(ok && v.String() == "1. "+s+"\n2. "+s, "linenumbers")
	}
}

// ---- value filters on symbolic integers / booleans ----
func HarnessC18Values() {
	a, b := verifInt(), verifInt()
	switch verifChoice(7) {
	case 0:
		v, ok := c18Apply("add", a, b)
		verifAssert(ok && v.Integer() == a+b, "add on integers")
		s, t := c18Word(1), c18Word(1)
		v, ok = c18Apply("add", s, t)
		verifAssert(ok && v.String() == s+t, "add on strings concatenates")
	case 1:
		v, ok := c18Apply("divisibleby", a, b)
		verifAssert(ok, "divisibleby must not fail")
		if b != 0 {
			verifAssert(v.Bool() == (a%b == 0), "divisibleby")
		}
	case 2: // get_digit on non-negative integers: i-th digit from the right, whole number if out of range
		x := int(verifByte())*256 + int(verifByte()) // 0..65535
		i := verifChoice(8) - 1
		v, ok := c18Apply("get_digit", x, i)
		verifAssert(ok, "get_digit")
		digits := 1
		for t := x; t >= 10; t /= 10 {
			digits++
		}
		if i <= 0 || i > digits {
			verifAssert(v.Integer() == x, "get_digit out of range returns the input")
		} else {
			d := x
			for k := 1; k < i; k++ {
				d /= 10
			}
			verifAssert(v.Integer() == d%10, "get_digit returns the i-th digit from the right")
		}
	case 3:
		v, ok := c18Apply("pluralize", a, nil)
		want := "s"
		if a == 1 {
			want = ""
		}
		verifAssert(ok && v.String() == want, "pluralize default suffix")
		v, ok = c18Apply("pluralize", a, "y,ies")
		want = "ies"
		if a == 1 {
			want = "y"
		}
		verifAssert(ok && v.String() == want, "pluralize with singular,plural suffixes")
	case 4:
		c := verifBool()
		v, ok := c18Apply("yesno", c, nil)
		want := "no"
		if c {
			want = "yes"
		}
		verifAssert(ok && v.String() == want, "yesno default")
		v, ok = c18Apply("yesno", c, "ja,nein,vielleicht")
		want = "nein"
		if c {
			want = "ja"
		}
		verifAssert(ok && v.String() == want, "yesno custom")
		v, ok = c18Apply("yesno", nil, "ja,nein,vielleicht")
		verifAssert(ok && v.String() == "vielleicht", "yesno maybe for nil")
	case 5:
		v, ok := c18Apply("default", a, b)
		want := a
		if a == 0 {
			want = b
		}
		verifAssert(ok && v.Integer() == want, "default replaces false values")
		v, ok = c18Apply("default_if_none", a, b)
		verifAssert(ok && v.Integer() == a, "default_if_none keeps non-nil values")
		v, ok = c18Apply("default_if_none", nil, b)
		verifAssert(ok && v.Integer() == b, "default_if_none replaces nil")
	default:
		v, ok := c18Apply("integer", a, nil)
		verifAssert(ok && v.Integer() == a, "integer of an int")
		d := verifByte()
		verifAssume(d >= '0')
		verifAssume(d <= '9')
		v, ok = c18Apply("integer", "-4"+string([]byte{d}), nil)
		verifAssert(ok && v.Integer() == -(40+int(d-'0')), "integer of a decimal string")
	}
}

// ---- widthratio: nearest integer to cur/max*width (either tie rule) ----
func HarnessC18Widthratio() {
	// 8-bit symbolic operands (zero-extended): keeps the int->float conversions cheap for the solver
	// cur (possibly negative) and width are symbolic 8-bit operands; the divisor is drawn by a choice
	// variable so that each path divides by a constant (keeps the FP queries within the solvers' reach)
	lim := verifParam("range", 50)
	cur, width := int(verifByte())-128, int(verifByte())
	max := 1 + verifChoice(lim)
	verifAssume(cur >= -lim)
	verifAssume(cur <= lim)
	verifAssume(width <= lim)
	if verifKnown("C18-widthratio-ceil") {
		verifAssume(false)
	}
	set := NewSet("verif", &memLoader{})
	tpl, err := set.FromString("{% widthratio cur max width as r %}{{ capture(r) }}")
	verifAssert(err == nil, "compile")
	got, seen := 0, false
	capture := func(v int) string { got, seen = v, true; return "" }
	_, err2 := tpl.Execute(Context{"cur": cur, "max": max, "width": width, "capture": capture})
	verifAssert(err2 == nil && seen, "execute")
	// exact integer arithmetic: ratio = cw2 / m2 with cw2 = 2*cur*width, m2 = 2*max
	cw2, m2 := 2*cur*width, 2*max
	d := got*m2 - cw2 // 2*max*(r - ratio)
	verifAssert(d <= max && -d <= max, "widthratio must be an integer nearest to cur/max*width")
	// The documented value is Django's: round(float(cur) / float(max) * float(width)) - the ratio is a
	// float computed in this order, so "a tie" means a tie of THAT float (an exact rational tie like
	// -15/22*11 is -7.499999999999999 as a float and simply rounds to -7, in Django as in pongo2).
	r := float64(cur) / float64(max) * float64(width)
	lo := int(math.Floor(r))
	if r == math.Floor(r)+0.5 {
		// a tie of the float: Python 2 resolves it away from zero, Python 3 to even; nothing else is documented
		hi := lo + 1
		away := hi
		if r < 0 {
			away = lo
		}
		even := lo
		if lo%2 != 0 {
			even = hi
		}
		verifAssert(got == away || got == even, "widthratio resolves an exact tie neither away from zero nor to even")
	} else {
		df := float64(got) - r
		verifAssert(df < 0.5, "widthratio is not the integer nearest to the ratio")
		verifAssert(df > -0.5, "widthratio is not the integer nearest to the ratio")
	}
}

// ---- formatting filters on concrete inputs (float/time formatting is not encoded: enumeration, not decided by the solver) ----
func HarnessC18Concrete() {
	// widthratio with a zero maximum: the documented value is 0 (Django catches the division by zero)
	for _, src := range []string{"{% widthratio 5 0 100 %}", "{% widthratio 0 0 100 %}", "{% widthratio cur zero 100 %}", "{% widthratio 5 0.0 100 as r %}{{ r }}"} {
		out, ok := render(src, Context{"cur": -3, "zero": 0})
		verifObserve("widthratio", out)
		verifAssert(ok && out == "0", "widthratio with a zero maximum must give 0")
	}
	type tc struct {
		f    string
		in   any
		p    any
		want string
	}
	cases := []tc{
		{"floatformat", 34.23234, nil, "34.2"}, {"floatformat", 34.00000, nil, "34"}, {"floatformat", 34.26, nil, "34.3"},
		{"floatformat", 34.23234, 3, "34.232"}, {"floatformat", 34.0, 3, "34.000"}, {"floatformat", 34.23234, -3, "34.232"}, {"floatformat", 34.0, -3, "34"},
		{"float", "3.5", nil, "3.500000"}, {"float", 2, nil, "2.000000"},
		{"stringformat", 3, "%03d", "003"}, {"stringformat", "x", "<%s>", "<x>"},
		{"integer", "12", nil, "12"}, {"integer", 3.9, nil, "3"},
	}
	c := cases[verifChoice(len(cases))]
	v, ok := c18Apply(c.f, c.in, c.p)
	verifAssert(ok && v.String() == c.want, "formatting filter result")
}

// the same filters on inputs of another kind than the usual one: sequences joined with the empty
// separator, padding of numbers (the width counts the characters of the printed value)
func HarnessC18Mixed() {
	switch verifChoice(3) {
	case 0: // join with every separator of 0..1 characters over lists (and strings)
		a, b, c := c18Word(1), c18Word(1), c18Word(1)
		sep := symStringLen(0, 1)
		if len(sep) == 1 {
			verifAssume(sep[0] < 0x80)
		}
		v, ok := c18Apply("join", []string{a, b, c}, sep)
		verifAssert(ok && v.String() == a+sep+b+sep+c, "join over a list of strings")
		v, ok = c18Apply("join", []int{1, 22}, sep)
		verifAssert(ok && v.String() == "1"+sep+"22", "join over a list of integers")
		v, ok = c18Apply("join", a+b, sep)
		verifAssert(ok && v.String() == a+sep+b, "join over the characters of a string")
		v, ok = c18Apply("join", []string{}, sep)
		verifAssert(ok && v.String() == "", "join over an empty list")
	case 1: // ljust / rjust / center of an integer: the printed number padded to the width
		x := int(verifByte()) // 0..255: 1..3 characters
		w := int(verifByte() & 7)
		s := itoa(x)
		pad := w - len(s)
		if pad < 0 {
			pad = 0
		}
		v, ok := c18Apply("ljust", x, w)
		verifAssert(ok && v.String() == s+c18Spaces(pad), "ljust of a number: padded on the right up to the width, counted on its printed form")
		v, ok = c18Apply("rjust", x, w)
		verifAssert(ok && v.String() == c18Spaces(pad)+s, "rjust of a number")
		v, ok = c18Apply("center", x, w)
		verifAssert(ok && len(v.String()) == len(s)+pad, "center of a number: total width")
	default: // get_digit of something that is not a non-negative whole number returns the input
		x := -1 - int(verifByte())
		i := 1 + verifChoice(4)
		v, ok := c18Apply("get_digit", x, i)
		verifAssert(ok, "get_digit")
		d := -x
		for k := 1; k < i; k++ {
			d /= 10
		}
		nd := 1
		for t := -x; t >= 10; t /= 10 {
			nd++
		}
		if i <= nd {
			verifAssert(v.Integer() == d%10, "get_digit of a negative number: the i-th digit from the right")
		} else {
			verifAssert(v.Integer() == x, "get_digit beyond the digits of a negative number returns the input")
		}
	}
}
