package pongo2

// C13: macros bind arguments by position with defaults; recursion is bounded.

func c13Letter() string { return string([]byte{verifByte()&0x0f | 0x40}) } // '@'..'O' (no HTML specials)

// binding: signature with np parameters, any subset with defaults, called with
// na arguments, locally / imported / imported under an alias.
func HarnessC13Binding() {
	maxp := verifParam("maxparams", 3)
	np := verifChoice(maxp + 1)
	na := verifChoice(maxp + 2)
	route := verifChoice(3) // 0 local, 1 imported, 2 imported under alias
	verifObserve("np", np)
	verifObserve("na", na)
	verifObserve("route", route)
	names := []string{"p", "q", "r", "s"}
	sig, body := "", ""
	hasDef := make([]bool, np)
	defv := make([]string, np)
	for i := 0; i < np; i++ {
		if i > 0 {
			sig += ", "
		}
		sig += names[i]
		hasDef[i] = verifChoice(2) == 1
		if hasDef[i] {
			// default expression: a literal or a context variable (evaluated at call time)
			if verifChoice(2) == 1 {
				defv[i] = "D" + itoa(i)
				sig += "=\"" + defv[i] + "\""
			} else {
				defv[i] = "\x00ctx"
				sig += "=dflt"
			}
		}
		body += "[{{ " + names[i] + " }}]"
	}
	dflt := c13Letter()
	args := make([]string, na)
	call := ""
	// the context also has variables named like the parameters: an omitted parameter is bound to
	// its default or to empty, it must not fall through to an outer variable of the same name
	ctx := Context{"dflt": dflt, "p": "OUTERP", "q": "OUTERQ", "r": "OUTERR", "s": "OUTERS"}
	for j := 0; j < na; j++ {
		if j > 0 {
			call += ", "
		}
		switch verifChoice(4) {
		case 3: // an argument that evaluates to nil is still bound (to the empty value), it does not fall back to the default
			args[j] = ""
			call += "nothing"
		case 0:
			args[j] = c13Letter()
			ctx["a"+itoa(j)] = args[j]
			call += "a" + itoa(j)
		case 1:
			n := int(verifByte() & 7)
			args[j] = itoa(n)
			ctx["a"+itoa(j)] = n
			call += "a" + itoa(j)
		default:
			args[j] = "L" + itoa(j)
			call += "\"L" + itoa(j) + "\""
		}
	}
	macro := "{% macro m(" + sig + ") export %}" + body + "{% endmacro %}"
	var tpl *Template
	var err error
	set := NewSet("verif", &memLoader{files: map[string]string{"lib": macro}})
	switch route {
	case 0:
		tpl, err = set.FromString(macro + "<{{ m(" + call + ") }}>")
	case 1:
		tpl, err = set.FromString("{% import \"lib\" m %}<{{ m(" + call + ") }}>")
	default:
		tpl, err = set.FromString("{% import \"lib\" m as zz %}<{{ zz(" + call + ") }}>")
	}
	verifAssert(err == nil, "macro definition and call must compile")
	out, err2 := tpl.Execute(ctx)
	if na > np {
		verifAssert(err2 != nil, "too many arguments must be an execution error")
		return
	}
	verifAssert(err2 == nil, "macro call must execute")
	want := "<"
	for i := 0; i < np; i++ {
		switch {
		case i < na:
			want += "[" + args[i] + "]"
		case hasDef[i] && defv[i] == "\x00ctx":
			want += "[" + dflt + "]"
		case hasDef[i]:
			want += "[" + defv[i] + "]"
		default:
			want += "[]"
		}
	}
	want += ">"
	verifObserve("out", out)
	verifAssert(out == want, "macro output differs from positional binding with defaults")
}

// the result of a macro is already-escaped markup: it is not escaped again when printed,
// while its arguments are escaped where the body prints them
func HarnessC13Safe() {
	x := symStringLen(1, verifParam("n", 2))
	out, ok := render("{% macro m(p) %}<b>{{ p }}</b>{% endmacro %}{{ m(x) }}", Context{"x": x})
	verifAssert(ok, "render")
	verifAssert(len(out) >= 7 && out[:3] == "<b>" && out[len(out)-4:] == "</b>", "macro markup must not be escaped again")
	inner := out[3 : len(out)-4]
	for i := 0; i < len(inner); i++ {
		verifAssert(inner[i] != '<' && inner[i] != '>' && inner[i] != '"' && inner[i] != '\'', "macro argument printed unescaped")
	}
}

// runaway recursion ends in an execution error (not in stack exhaustion)
func HarnessC13Recursion() {
	graph := verifChoice(5)  // 0: r->r   1: a->b->a   2: a->b->c->a   3, 4: the same through parameter DEFAULT expressions
	route := verifChoice(3)  // 0 local, 1 imported, 2 imported under alias
	verifObserve("graph", graph)
	verifObserve("route", route)
	var lib string
	entry := "a"
	switch graph {
	case 0:
		lib = "{% macro a() export %}{{ a() }}{% endmacro %}"
	case 1:
		lib = "{% macro a() export %}{{ b() }}{% endmacro %}{% macro b() export %}x{{ a() }}{% endmacro %}"
	case 2:
		lib = "{% macro a() export %}{{ b() }}{% endmacro %}{% macro b() export %}{{ c() }}{% endmacro %}{% macro c() export %}{{ a() }}{% endmacro %}"
	case 3: // the recursion happens while the arguments are bound, not in the body
		lib = "{% macro a(x=a()) export %}[{{ x }}]{% endmacro %}"
	default:
		lib = "{% macro a(x=b()) export %}[{{ x }}]{% endmacro %}{% macro b(y=a()) export %}({{ y }}){% endmacro %}"
	}
	imports := []string{"a", "a, b", "a, b, c", "a", "a, b"}[graph]
	set := NewSet("verif", &memLoader{files: map[string]string{"lib": lib}})
	var tpl *Template
	var err error
	switch route {
	case 0:
		tpl, err = set.FromString(lib + "{{ " + entry + "() }}")
	case 1:
		if verifKnown("C13-import-recursion") {
			verifAssume(false)
		}
		tpl, err = set.FromString("{% import \"lib\" " + imports + " %}{{ " + entry + "() }}")
	default:
		if verifKnown("C13-import-recursion") {
			verifAssume(false)
		}
		tpl, err = set.FromString("{% import \"lib\" a as zz %}{% import \"lib\" " + imports + " %}{{ zz() }}")
	}
	verifAssert(err == nil, "compile")
	out, err2 := tpl.Execute(nil)
	verifAssert(err2 != nil, "runaway macro recursion must end in an execution error")
	verifAssert(out == "", "failed execution must not return output")
}

// a macro that calls itself by its own name (with a base case) behaves the same defined locally,
// imported, and imported under an alias only
func HarnessC13SelfName() {
	n := int(verifByte() & 3)
	m := c13Letter()
	lib := "{% macro r(n) export %}" + m + "{{ n }}{% if n %}{{ r(n - 1) }}{% endif %}{% endmacro %}"
	set := NewSet("verif", &memLoader{files: map[string]string{"lib": lib}})
	want := ""
	for i := n; i >= 0; i-- {
		want += m + itoa(i)
	}
	for route, src := range []string{
		lib + "{{ r(n) }}",
		"{% import \"lib\" r %}{{ r(n) }}",
		"{% import \"lib\" r as x %}{{ x(n) }}",
		"{% import \"lib\" r as x %}{% set r = 5 %}{{ x(n) }}",
	} {
		tpl, err := set.FromString(src)
		verifAssert(err == nil, "compile")
		out, err2 := tpl.Execute(Context{"n": n})
		verifObserve("route", route)
		verifObserve("out", out)
		verifAssert(err2 == nil && out == want, "a macro calling itself by name must behave the same locally, imported and under an alias")
	}
}
