package pongo2

// C07: expressions evaluate according to their fully parenthesised reading.
// A typed expression tree is chosen (choice variables), printed with minimal
// parentheses and compiled by the real parser; its leaves are context
// variables bound to symbolic 64-bit ints / IEEE floats / bools / byte strings.
// The verdict of the compiled template is compared with an evaluator of the
// TREE written here. Well-typed fragment only (the property's restriction):
// arithmetic on numbers, not/and/or on booleans, == within one type, ordering
// only on numbers, no chained comparisons, and/or never mixed without parentheses.

const (
	c07Int = iota
	c07Float
	c07Bool
	c07Str
)

type c07Node struct {
	op   string // "var", "lit", "neg", "not", binary operator spelling class
	kind int
	name string // variable name or literal text
	l, r *c07Node
}

type c07Val struct {
	kind int
	i    int
	f    float64
	b    bool
	s    string
	err  bool
}

type c07Gen struct {
	negInTerm []*c07Node
	ctx  Context
	vals map[string]c07Val
	n    int
	seed int
}

func (g *c07Gen) leaf(kind int) *c07Node {
	name := "v" + itoa(g.n)
	g.n++
	var v c07Val
	v.kind = kind
	switch kind {
	case c07Int:
		v.i = verifInt()
		g.ctx[name] = v.i
	case c07Float:
		v.f = verifFloat()
		g.ctx[name] = v.f
	case c07Bool:
		v.b = verifBool()
		g.ctx[name] = v.b
	default:
		v.s = symStringLen(0, 2)
		g.ctx[name] = v.s
	}
	g.vals[name] = v
	return &c07Node{op: "var", kind: kind, name: name}
}

// num generates a numeric expression of depth <= d. fl: floats allowed.
func (g *c07Gen) num(d int, fl bool) *c07Node {
	nops := 1
	if d > 0 {
		nops = 7
		if fl {
			nops = 8
		}
	}
	k := verifChoice(nops)
	switch k {
	case 0:
		if fl && verifChoice(2) == 1 {
			return g.leaf(c07Float)
		}
		return g.leaf(c07Int)
	case 1:
		x := g.num(d-1, fl)
		return &c07Node{op: "neg", kind: x.kind, l: x}
	case 2, 3, 4, 5:
		op := []string{"+", "-", "*", "/"}[k-2]
		cf := fl
		if fl && k >= 4 && verifParam("floats", 0) == 2 && d != verifParam("depth", 1) {
			cf = false // float products/quotients only at the root: a float product feeding another operation is beyond the solvers' reach (bit-blasted FP multiplier/divider)
		}
		l, r := g.num(d-1, cf), g.num(d-1, cf)
		kind := c07Int
		if l.kind == c07Float || r.kind == c07Float {
			kind = c07Float
		}
		return &c07Node{op: op, kind: kind, l: l, r: r}
	case 6: // modulo: integers only (float modulo is outside the uncontroversial fragment)
		l, r := g.num(d-1, false), g.num(d-1, false)
		return &c07Node{op: "%", kind: c07Int, l: l, r: r}
	default: // power on literals only (math.Pow is not encoded): 2^3, 3^2, 2^3^2 (right-associative)
		lit := func(s string) *c07Node { return &c07Node{op: "lit", kind: c07Int, name: s} }
		switch verifChoice(3) {
		case 0:
			return &c07Node{op: "^", kind: c07Float, l: lit("2"), r: lit("3")}
		case 1:
			return &c07Node{op: "^", kind: c07Float, l: lit("3"), r: lit("2")}
		default:
			return &c07Node{op: "^", kind: c07Float, l: lit("2"), r: &c07Node{op: "^", kind: c07Float, l: lit("3"), r: lit("2")}}
		}
	}
}

func (g *c07Gen) boolean(d int, fl bool) *c07Node {
	nops := 2
	if d > 0 {
		nops = 7
	}
	switch verifChoice(nops) {
	case 0:
		return g.leaf(c07Bool)
	case 1:
		return &c07Node{op: "lit", kind: c07Bool, name: []string{"true", "false"}[verifChoice(2)]}
	case 2:
		return &c07Node{op: "not", kind: c07Bool, l: g.boolean(d-1, fl)}
	case 3: // ordering / equality of numbers
		op := []string{"<", "<=", ">", ">=", "==", "!="}[verifChoice(6)]
		l, r := g.num(d-1, fl), g.num(d-1, fl)
		if (op == "==" || op == "!=") && l.kind != r.kind {
			op = "<" // no cross-type equality
		}
		return &c07Node{op: op, kind: c07Bool, l: l, r: r}
	case 4: // equality of booleans / strings, membership
		switch verifChoice(3) {
		case 0:
			return &c07Node{op: []string{"==", "!="}[verifChoice(2)], kind: c07Bool, l: g.leaf(c07Bool), r: g.leaf(c07Bool)}
		case 1:
			return &c07Node{op: []string{"==", "!="}[verifChoice(2)], kind: c07Bool, l: g.leaf(c07Str), r: g.leaf(c07Str)}
		default:
			return &c07Node{op: "in", kind: c07Bool, l: g.leaf(c07Str), r: g.leaf(c07Str)}
		}
	case 5:
		return &c07Node{op: "and", kind: c07Bool, l: g.boolean(d-1, fl), r: g.boolean(d-1, fl)}
	default:
		return &c07Node{op: "or", kind: c07Bool, l: g.boolean(d-1, fl), r: g.boolean(d-1, fl)}
	}
}

// precedence levels of the documented grammar (higher binds tighter)
func c07Prec(op string) int {
	switch op {
	case "and", "or":
		return 1
	case "<", "<=", ">", ">=", "==", "!=", "in":
		return 2
	case "+", "-":
		return 3
	case "*", "/", "%":
		return 4
	case "neg", "not":
		return 5
	case "^":
		return 6
	}
	return 9 // var, lit
}

func (g *c07Gen) spell(op string) string {
	alt := (g.seed>>uint(g.n%7))&1 == 1
	g.n++
	switch op {
	case "and":
		if alt {
			return "&&"
		}
	case "or":
		if alt {
			return "||"
		}
	case "!=":
		if alt {
			return "<>"
		}
	}
	return op
}

// print with minimal parentheses. Unary operators are written without
// parentheses only where an expression may start (the grammar accepts a sign /
// not only at the start of a simple expression); as a right operand of an
// arithmetic operator they are parenthesised.
func (g *c07Gen) print(n *c07Node, parent int, right bool) string {
	sp := " "
	var s string
	p := c07Prec(n.op)
	switch n.op {
	case "var", "lit":
		return n.name
	case "neg":
		s = "-" + g.print(n.l, p, false)
		if parent >= 3 && (right || parent > 4) {
			return "(" + s + ")"
		}
		if parent == 4 {
			// "-x / y", "-x % y", "-x * y": the unary minus is the left operand of a multiplicative operator
			g.negInTerm = append(g.negInTerm, n.l)
		}
		return s
	case "not":
		w := []string{"not ", "!"}[(g.seed>>3)&1]
		s = w + g.print(n.l, p, false)
		if parent >= 3 {
			return "(" + s + ")"
		}
		return s
	case "^":
		s = g.print(n.l, p+1, false) + sp + "^" + sp + g.print(n.r, p, true)
	case "and", "or":
		// never mix and/or without parentheses: children that are and/or are parenthesised
		s = g.print(n.l, p+1, false) + sp + g.spell(n.op) + sp + g.print(n.r, p+1, true)
	case "<", "<=", ">", ">=", "==", "!=", "in":
		// comparisons do not chain: comparison children are parenthesised
		s = g.print(n.l, p+1, false) + sp + g.spell(n.op) + sp + g.print(n.r, p+1, true)
	default: // left-associative arithmetic
		s = g.print(n.l, p, false) + sp + n.op + sp + g.print(n.r, p+1, true)
	}
	if p < parent {
		return "(" + s + ")"
	}
	return s
}

func c07ToF(v c07Val) float64 {
	if v.kind == c07Float {
		return v.f
	}
	return float64(v.i)
}

func c07Pow(b, e float64) float64 { // small non-negative integer exponents only (literals)
	r := 1.0
	for i := 0; i < int(e); i++ {
		r *= b
	}
	return r
}

func c07Atoi(s string) int {
	n := 0
	for i := 0; i < len(s); i++ {
		n = n*10 + int(s[i]-'0')
	}
	return n
}

// eval: the reference semantics of the TREE.
func (g *c07Gen) eval(n *c07Node) c07Val {
	switch n.op {
	case "var":
		return g.vals[n.name]
	case "lit":
		if n.kind == c07Bool {
			return c07Val{kind: c07Bool, b: n.name == "true"}
		}
		return c07Val{kind: c07Int, i: c07Atoi(n.name)}
	case "neg":
		x := g.eval(n.l)
		if x.err {
			return x
		}
		if x.kind == c07Float {
			return c07Val{kind: c07Float, f: -x.f}
		}
		return c07Val{kind: c07Int, i: -x.i}
	case "not":
		x := g.eval(n.l)
		if x.err {
			return x
		}
		return c07Val{kind: c07Bool, b: !x.b}
	case "and":
		x := g.eval(n.l)
		if x.err || !x.b {
			return x
		}
		return g.eval(n.r)
	case "or":
		x := g.eval(n.l)
		if x.err || x.b {
			return x
		}
		return g.eval(n.r)
	}
	x := g.eval(n.l)
	if x.err {
		return x
	}
	y := g.eval(n.r)
	if y.err {
		return y
	}
	fl := x.kind == c07Float || y.kind == c07Float
	switch n.op {
	case "^":
		return c07Val{kind: c07Float, f: c07Pow(c07ToF(x), c07ToF(y))}
	case "+", "-", "*", "/":
		if fl {
			a, b := c07ToF(x), c07ToF(y)
			switch n.op {
			case "+":
				return c07Val{kind: c07Float, f: a + b}
			case "-":
				return c07Val{kind: c07Float, f: a - b}
			case "*":
				return c07Val{kind: c07Float, f: a * b}
			}
			if b == 0 {
				return c07Val{err: true}
			}
			return c07Val{kind: c07Float, f: a / b}
		}
		switch n.op {
		case "+":
			return c07Val{kind: c07Int, i: x.i + y.i}
		case "-":
			return c07Val{kind: c07Int, i: x.i - y.i}
		case "*":
			return c07Val{kind: c07Int, i: x.i * y.i}
		}
		if y.i == 0 {
			return c07Val{err: true}
		}
		return c07Val{kind: c07Int, i: x.i / y.i}
	case "%":
		if y.i == 0 {
			return c07Val{err: true}
		}
		return c07Val{kind: c07Int, i: x.i % y.i}
	case "in":
		return c07Val{kind: c07Bool, b: indexOf(y.s, x.s) >= 0}
	case "==", "!=":
		var eq bool
		switch x.kind {
		case c07Int:
			eq = x.i == y.i
		case c07Float:
			eq = x.f == y.f
		case c07Bool:
			eq = x.b == y.b
		default:
			eq = x.s == y.s
		}
		return c07Val{kind: c07Bool, b: eq == (n.op == "==")}
	}
	var lt, le bool
	if fl {
		a, b := c07ToF(x), c07ToF(y)
		lt, le = a < b, a <= b
		switch n.op {
		case ">":
			lt = a > b
		case ">=":
			le = a >= b
		}
	} else {
		lt, le = x.i < y.i, x.i <= y.i
		switch n.op {
		case ">":
			lt = x.i > y.i
		case ">=":
			le = x.i >= y.i
		}
	}
	if n.op == "<" || n.op == ">" {
		return c07Val{kind: c07Bool, b: lt}
	}
	return c07Val{kind: c07Bool, b: le}
}

// Open finding C07-neg-minint: pongo2 applies a leading unary minus to the whole
// multiplicative term (-(x / y)) instead of to its first operand ((-x) / y).
// The two readings differ exactly when x is the minimum integer; those inputs
// are excluded while the finding is listed as open (nothing else is).
func (g *c07Gen) excludeKnown() {
	if !verifKnown("C07-neg-minint") {
		return
	}
	for _, x := range g.negInTerm {
		v := g.eval(x)
		if !v.err && v.kind == c07Int {
			verifAssume(v.i != -9223372036854775808)
		}
	}
}

func c07New() *c07Gen {
	return &c07Gen{ctx: Context{}, vals: map[string]c07Val{}, seed: verifParam("seed", 0)}
}

func c07Run(src string, ctx Context) (string, bool, bool) {
	set := NewSet("verif", &memLoader{})
	tpl, err := set.FromString(src)
	if err != nil {
		return "", false, false
	}
	out, err2 := tpl.Execute(ctx)
	return out, true, err2 == nil
}

// numeric expressions: {% if E == r %} with r bound to the reference value
func HarnessC07Num() {
	g := c07New()
	t := g.num(verifParam("depth", 1), verifParam("floats", 0) >= 1)
	want := g.eval(t)
	src := g.print(t, 0, false)
	verifObserve("expr", src)
	if want.kind == c07Float {
		g.ctx["r"] = want.f
	} else {
		g.ctx["r"] = want.i
	}
	g.excludeKnown()
	out, compiled, ok := c07Run("{% if "+src+" == r %}Y{% else %}N{% endif %}", g.ctx)
	verifAssert(compiled, "well-formed expression must compile")
	verifAssert(ok == !want.err, "execution error iff the tree divides (or takes a modulo) by zero")
	if want.err {
		return
	}
	if want.kind == c07Float && want.f != want.f {
		verifAssert(out == "N", "NaN result must not compare equal")
		return
	}
	verifObserve("out", out)
	verifAssert(out == "Y", "compiled expression differs from the value of its fully parenthesised reading")
}

// boolean expressions: branch taken by {% if E %}
func HarnessC07Bool() {
	g := c07New()
	t := g.boolean(verifParam("depth", 1), verifParam("floats", 0) >= 1)
	want := g.eval(t)
	src := g.print(t, 0, false)
	verifObserve("expr", src)
	g.excludeKnown()
	out, compiled, ok := c07Run("{% if "+src+" %}Y{% else %}N{% endif %}", g.ctx)
	verifAssert(compiled, "well-formed expression must compile")
	verifAssert(ok == !want.err, "execution error iff the evaluated part of the tree divides by zero (short circuit respected)")
	if want.err {
		return
	}
	verifObserve("out", out)
	if want.b {
		verifAssert(out == "Y", "expression is true under its fully parenthesised reading but the else-branch was taken")
	} else {
		verifAssert(out == "N", "expression is false under its fully parenthesised reading but the if-branch was taken")
	}
}

// canonical printing and string concatenation
func HarnessC07Print() {
	c := verifParam("case", -1)
	if c < 0 {
		c = verifChoice(7)
	}
	switch c {
	case 0: // booleans print as True / False
		b := verifBool()
		out, ok := render("{{ b }}|{{ not b }}|{{ b and true }}", Context{"b": b})
		want := "False|True|False"
		if b {
			want = "True|False|True"
		}
		verifAssert(ok && out == want, "booleans must print as True/False")
	case 1: // integers print in canonical decimal: optional '-', digits without leading zeros, value parses back
		i := int(verifByte()) - int(verifByte()) // -255..255 (symbolic)
		out, ok := render("{{ i }}", Context{"i": i})
		verifObserve("out", out)
		verifAssert(ok && len(out) > 0, "integer must print")
		neg := out[0] == '-'
		digits := out
		if neg {
			digits = out[1:]
		}
		verifAssert(len(digits) > 0 && (len(digits) == 1 || digits[0] != '0'), "decimal form must have no leading zeros")
		v := 0
		for k := 0; k < len(digits); k++ {
			verifAssert(digits[k] >= '0' && digits[k] <= '9', "decimal form must consist of digits")
			v = v*10 + int(digits[k]-'0')
		}
		if neg {
			verifAssert(v != 0, "zero must not carry a sign")
			v = -v
		}
		verifAssert(v == i, "printed decimal does not parse back to the integer")
	case 2: // floats print with six decimals (concrete operands: float formatting is not encoded)
		out, ok := render("{{ 1.5 }}|{{ x + 1 }}|{{ 7 / 2.0 }}|{{ -x }}|{{ 2 ^ 3 }}", Context{"x": 0.25})
		verifAssert(ok && out == "1.500000|1.250000|3.500000|-0.250000|8.000000", "floats must print with six decimals")
	case 3: // + concatenates as soon as a string is involved
		s, t := symStringLen(0, 2), symStringLen(0, 2)
		out, ok := render("{% autoescape off %}{{ s + t }}|{{ s + 7 }}|{{ 7 + s }}|{{ s + t + s }}{% endautoescape %}", Context{"s": s, "t": t})
		verifAssert(ok && out == s+t+"|"+s+"7|7"+s+"|"+s+t+s, "+ must concatenate when a string is involved")
	case 4: // string equality / membership verdicts with symbolic strings
		s, t := symStringLen(0, 2), symStringLen(0, 2)
		out, ok := render("{% if s == t %}E{% endif %}{% if s != t %}N{% endif %}{% if s in t %}I{% endif %}{% if not (s in t) %}O{% endif %}", Context{"s": s, "t": t})
		want := ""
		if s == t {
			want += "E"
		} else {
			want += "N"
		}
		if indexOf(t, s) >= 0 {
			want += "I"
		} else {
			want += "O"
		}
		verifAssert(ok && out == want, "string ==, != and in verdicts")
	case 5: // membership of integers and strings in lists: in-template list literals and context slices
		a, b := verifInt(), verifInt()
		s, t := symStringLen(0, 1), symStringLen(0, 1)
		out, ok := render("{% if a in [a, b] %}1{% endif %}{% if a in [b] %}2{% endif %}{% if a in l %}3{% endif %}{% if s in [t, s] %}4{% endif %}"+
			"{% if a + 1 in [b] %}5{% endif %}{% if not (a in [b, 7]) %}6{% endif %}{% if s in ls %}7{% endif %}{% if a in [] %}8{% endif %}", Context{"a": a, "b": b, "l": []int{b}, "s": s, "t": t, "ls": []string{t}})
		want := "1"
		if a == b {
			want += "23"
		}
		want += "4"
		if a+1 == b {
			want += "5"
		}
		if a != b && a != 7 {
			want += "6"
		}
		if s == t {
			want += "7"
		}
		verifObserve("out", out)
		verifAssert(ok && out == want, "membership verdicts of integers/strings in list literals and context slices")
	default: // integer division / modulo by zero are execution errors, in evaluation order
		a, b := verifInt(), verifInt()
		_, ok := render("{% if a / b %}{% endif %}", Context{"a": a, "b": b})
		verifAssert(ok == (b != 0), "a / b fails iff b is zero")
		_, ok = render("{% if a % b %}{% endif %}", Context{"a": a, "b": b})
		verifAssert(ok == (b != 0), "a % b fails iff b is zero")
		_, ok = render("{% if a == 0 or 1 / a == 0 or true %}x{% endif %}", Context{"a": a})
		verifAssert(ok, "short circuit: the division must not be evaluated when a == 0")
	}
}

// every Go integer kind a context can hold behaves like "an integer": the same verdicts and the
// same printed results as the int of the same value (small values: 0..255 resp. -128..127)
func HarnessC07Kinds() {
	b := verifByte()
	var n, other any
	var l any
	v := int(b)
	switch verifChoice(10) {
	case 0:
		n, other, l = int8(b), int8(b)+1, []int8{int8(b)}
		v = int(int8(b))
	case 1:
		n, other, l = int16(b), int16(b)+1, []int16{int16(b)}
	case 2:
		n, other, l = int32(b), int32(b)+1, []int32{int32(b)}
	case 3:
		n, other, l = int64(b), int64(b)+1, []int64{int64(b)}
	case 4:
		n, other, l = uint(b), uint(b)+1, []uint{uint(b)}
	case 5:
		n, other, l = uint8(b), uint8(b)+1, []uint8{uint8(b)}
		if b == 255 {
			other = uint8(3)
		}
	case 6:
		n, other, l = uint16(b), uint16(b)+1, []uint16{uint16(b)}
	case 7:
		n, other, l = uint32(b), uint32(b)+1, []uint32{uint32(b)}
	case 8:
		n, other, l = uint64(b), uint64(b)+1, []uint64{uint64(b)}
	default:
		n, other, l = int(b), int(b)+1, []int{int(b)}
	}
	if v == 127 {
		verifAssume(verifChoice(1) == 0) // (int8(127)+1 wraps: keep 'other' different from n anyway)
	}
	ctx := Context{"n": n, "o": other, "r": v, "l": l}
	out, ok := render("{% if n == r %}E{% endif %}{% if n != r %}N{% endif %}{% if r == n %}e{% endif %}{% if n == o %}X{% endif %}{% if n != o %}D{% endif %}"+
		"{% if r in l %}I{% endif %}{% if n in l %}i{% endif %}{% if o in l %}x{% endif %}|{{ -n + 1 }}|{{ n + 1 }}|{{ n * 2 }}|{{ n - r }}|{{ n / 1 }}|{{ n % 7 }}|"+
		"{% if n < r + 1 %}L{% endif %}{% if n >= r %}G{% endif %}{% if n > r %}g{% endif %}{% if not (n == r) %}!{% endif %}{% if n == r and n + 0 == r %}A{% endif %}", ctx)
	verifObserve("out", out)
	want := "EeDIi|" + itoa(-v+1) + "|" + itoa(v+1) + "|" + itoa(v*2) + "|0|" + itoa(v) + "|" + itoa(v%7) + "|LGA"
	verifAssert(ok, "integer kinds: expressions must evaluate")
	verifAssert(out == want, "a context integer of another Go kind evaluates differently from the int of the same value")
}
