package pongo2

// Helpers shared by all harnesses (overlay file in package pongo2).

import (
	"io"
	"strings"
	"sync"
)

// symString: n symbolic bytes, full range 0..255.
func symString(n int) string {
	b := make([]byte, n)
	for i := range b {
		b[i] = verifByte()
	}
	return string(b)
}

// symStringLen: a string whose length is chosen in [min,max] (fork on the length), bytes symbolic.
func symStringLen(min, max int) string {
	n := min
	if max > min {
		n = min + verifChoice(max-min+1)
	}
	return symString(n)
}

// asciiString: n symbolic printable ASCII bytes (assumption stated by the caller's bounds).
func asciiString(n int) string {
	s := symString(n)
	for i := 0; i < len(s); i++ {
		verifAssume(s[i] >= 0x20 && s[i] < 0x7f)
	}
	return s
}

func hasByte(s string, c byte) bool {
	for i := 0; i < len(s); i++ {
		if s[i] == c {
			return true
		}
	}
	return false
}

func noDelims(s string) bool {
	for i := 0; i+1 < len(s); i++ {
		if s[i] == '{' && (s[i+1] == '{' || s[i+1] == '%' || s[i+1] == '#') {
			return false
		}
	}
	return true
}

func containsAt(s string, off int, p string) bool {
	if off < 0 || off+len(p) > len(s) {
		return false
	}
	return s[off:off+len(p)] == p
}

func indexOf(s, p string) int {
	for i := 0; i+len(p) <= len(s); i++ {
		if s[i:i+len(p)] == p {
			return i
		}
	}
	return -1
}

// render compiles and executes src in a fresh set; ok=false on any error.
func render(src string, ctx Context) (string, bool) {
	set := NewSet("verif", &memLoader{})
	tpl, err := set.FromString(src)
	if err != nil {
		return "", false
	}
	out, err2 := tpl.Execute(ctx)
	if err2 != nil {
		return "", false
	}
	return out, true
}

type harnessErr struct{ s string }

func (e *harnessErr) Error() string { return e.s }

var errHarness error = &harnessErr{"injected"}

type ioReader = io.Reader

func newStringReader(s string) io.Reader { return strings.NewReader(s) }

// memLoader: in-memory TemplateLoader that records what it is asked for.
type memLoader struct {
	mu    sync.Mutex
	files map[string]string
	gets  int
	log   []string
}

func (m *memLoader) Abs(base, name string) string { return name }
func (m *memLoader) Get(path string) (io.Reader, error) {
	m.mu.Lock()
	defer m.mu.Unlock()
	m.gets++
	m.log = append(m.log, path)
	s, ok := m.files[path]
	if !ok {
		return nil, &harnessErr{"not found: " + path}
	}
	return strings.NewReader(s), nil
}

func itoa(n int) string {
	if n == 0 {
		return "0"
	}
	neg := n < 0
	if neg {
		n = -n
	}
	var b []byte
	for n > 0 {
		b = append([]byte{byte('0' + n%10)}, b...)
		n /= 10
	}
	if neg {
		b = append([]byte{'-'}, b...)
	}
	return string(b)
}
