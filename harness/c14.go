package pongo2

// C14: Execute variants agree; ExecuteWriter is all-or-nothing.
// The position of the failing output node (F) and the write call at which the
// caller's writer starts failing (W) are solver variables.

type c14Writer struct {
	data   []byte
	calls  int
	failAt int // fail from this call on (1-based); 0 = never
}

var errC14Writer error = &harnessErr{"writer failed"}

func (w *c14Writer) Write(p []byte) (int, error) {
	w.calls++
	if w.failAt > 0 && w.calls >= w.failAt {
		return 0, errC14Writer
	}
	w.data = append(w.data, p...)
	return len(p), nil
}

func c14IsPrefix(p, s string) bool { return len(p) <= len(s) && s[:len(p)] == p }

func HarnessC14() {
	k := verifParam("k", 3)
	nested := verifChoice(2) == 1 // failing nodes inside an included template
	F := verifInt()               // which output node fails (1..k); anything else: none
	W := verifInt()               // writer fails from its W-th call on; <= 0: never
	verifAssume(W >= 0)
	verifAssume(W <= k+3)
	f := func(j int) (string, error) {
		if j == F {
			return "", errHarness
		}
		return "v" + itoa(j), nil
	}
	// a context value much longer than the template source (output size thresholds)
	hl := []int{0, 100, 3000}[verifChoice(3)]
	hb := make([]byte, hl)
	for i := range hb {
		hb[i] = 'h'
	}
	head := string(hb)
	src, full := "x{{ head }}", "x"+head // literal text is already buffered when the large value arrives
	for j := 1; j <= k; j++ {
		t := string([]byte{'a' + byte(j)})
		src += t + "{{ f(" + itoa(j) + ") }}"
		full += t + "v" + itoa(j)
	}
	src += "z"
	full += "z"
	ml := &memLoader{files: map[string]string{"inner": src}}
	set := NewSet("verif", ml)
	var tpl *Template
	var err error
	if nested {
		tpl, err = set.FromString("<{% include \"inner\" %}>")
		full = "<" + full + ">"
	} else {
		tpl, err = set.FromString(src)
	}
	verifAssert(err == nil, "compile")
	ctx := Context{"f": f, "head": head}
	faulty := F >= 1 && F <= k
	verifObserve("faulty", faulty)

	s1, e1 := tpl.Execute(ctx)
	b2, e2 := tpl.ExecuteBytes(ctx)
	w3 := &c14Writer{}
	e3 := tpl.ExecuteWriter(ctx, w3)
	w4 := &c14Writer{}
	e4 := tpl.ExecuteWriterUnbuffered(ctx, w4)
	verifAssert((e1 != nil) == faulty, "Execute fails iff an output node fails")
	verifAssert((e2 != nil) == faulty && (e3 != nil) == faulty && (e4 != nil) == faulty, "the four variants must fail in the same cases")
	if !faulty {
		verifAssert(s1 == full, "Execute output")
		verifAssert(string(b2) == full && string(w3.data) == full && string(w4.data) == full, "the four variants must produce the same bytes")
	} else {
		verifAssert(w3.calls == 0, "ExecuteWriter wrote to the caller's writer although execution failed")
		verifAssert(c14IsPrefix(string(w4.data), full), "ExecuteWriterUnbuffered wrote something that is not a leading part of the successful output")
		verifAssert(s1 == "" && b2 == nil, "failed Execute/ExecuteBytes must not return partial output")
	}
	// failing caller's writer
	w5 := &c14Writer{failAt: W}
	e5 := tpl.ExecuteWriter(ctx, w5)
	if faulty {
		verifAssert(e5 != nil && w5.calls == 0, "ExecuteWriter must not touch the writer when execution fails")
	} else if W >= 1 {
		if w5.calls >= W {
			verifAssert(e5 != nil, "ExecuteWriter must hand the caller's writer error back")
			verifAssert(e5 == errC14Writer, "ExecuteWriter must return the writer's own error")
		}
		verifAssert(c14IsPrefix(string(w5.data), full), "bytes accepted by the writer must be a leading part of the output")
	} else {
		verifAssert(e5 == nil && string(w5.data) == full, "ExecuteWriter with a healthy writer")
	}
	// the unbuffered variant on a failing writer: whatever it reports, it returns (no panic) and what
	// the writer accepted is a leading part of the output
	w6 := &c14Writer{failAt: W}
	tpl.ExecuteWriterUnbuffered(ctx, w6)
	verifAssert(c14IsPrefix(string(w6.data), full), "bytes accepted from ExecuteWriterUnbuffered must be a leading part of the output")
}

// the four variants over the generated programs of C04 (every registered tag, block tags rendering
// into buffers of their own) placed after markup: same bytes, same failures
func HarnessC14Programs() {
	progs := c04Programs()
	prog := progs[verifChoice(len(progs))]
	verifObserve("prog", prog)
	d := c04SymData(verifParam("len", 2), prog)
	set, _ := c04Setup(false, false)
	var tpl *Template
	var err error
	if prog == "\x00extends" {
		tpl, err = c04Compile(set, prog)
	} else {
		tpl, err = set.FromString("<ul> <li>\n</li> </ul>\n" + prog + "<p> <b>{{ s }}</b> </p>|")
	}
	verifAssert(err == nil, "program must compile")
	s1, e1 := tpl.Execute(d.ctx())
	b2, e2 := tpl.ExecuteBytes(d.ctx())
	w3 := &c14Writer{}
	e3 := tpl.ExecuteWriter(d.ctx(), w3)
	w4 := &c14Writer{}
	e4 := tpl.ExecuteWriterUnbuffered(d.ctx(), w4)
	verifObserve("out", s1)
	verifAssert((e1 != nil) == (e2 != nil) && (e1 != nil) == (e3 != nil) && (e1 != nil) == (e4 != nil), "the four variants must fail in the same cases")
	if e1 == nil {
		verifAssert(string(b2) == s1 && string(w3.data) == s1, "Execute, ExecuteBytes and ExecuteWriter must produce the same bytes")
		verifAssert(string(w4.data) == s1, "ExecuteWriterUnbuffered must produce the same bytes as the buffered variants")
	} else {
		verifAssert(w3.calls == 0 && s1 == "" && b2 == nil, "a failed execution must not hand out partial output (buffered variants)")
	}
}

// template shapes x context validity x history: the degenerate shapes (empty, text only, text+comment,
// one variable, one tag) with a context whose single extra key is a symbolic byte string (valid or not as
// an identifier - the four variants must agree on it, whatever the rule is), supplied through the call or
// through the set's globals; then the caller overwrites the bytes ExecuteBytes handed out and renders
// again: the result of one execution must not alias anything a later execution reads.
func HarnessC14Shapes() {
	m := verifParam("m", 2)
	t := symStringLen(0, m)
	verifAssume(noDelims(t))
	verifAssume(len(t) == 0 || t[len(t)-1] != '{')
	shape := verifChoice(6)
	var src, full string
	switch shape {
	case 0:
		src, full = t, t
	case 1:
		src, full = "T"+t, "T"+t
	case 2:
		src, full = "T"+t+"{# c #}", "T"+t
	case 3:
		src, full = "{{ s }}", "S"
	case 4:
		src, full = "T"+t+"{{ s }}", "T"+t+"S"
	default:
		src, full = "{% if s %}T"+t+"{% endif %}", "T"+t
	}
	verifObserve("src", src)
	key := symStringLen(0, 2)
	verifAssume(key != "s") // the one name the shapes read
	verifObserve("key", key)
	viaGlobals := verifChoice(2) == 1
	set := NewSet("verif", &memLoader{})
	ctx := Context{"s": "S"}
	if viaGlobals {
		set.Globals[key] = 1
	} else {
		ctx[key] = 1
	}
	tpl, err := set.FromString(src)
	verifAssert(err == nil, "shape must compile")
	s1, e1 := tpl.Execute(ctx)
	b2, e2 := tpl.ExecuteBytes(ctx)
	w3 := &c14Writer{}
	e3 := tpl.ExecuteWriter(ctx, w3)
	w4 := &c14Writer{}
	e4 := tpl.ExecuteWriterUnbuffered(ctx, w4)
	verifObserve("fails", e1 != nil)
	verifAssert((e1 != nil) == (e2 != nil) && (e1 != nil) == (e3 != nil) && (e1 != nil) == (e4 != nil), "the four variants must fail in the same cases (context validity)")
	if e1 != nil {
		verifAssert(w3.calls == 0 && s1 == "" && b2 == nil, "a failed execution must not hand out partial output (buffered variants)")
		verifAssert(c14IsPrefix(string(w4.data), full), "ExecuteWriterUnbuffered wrote something that is not a leading part of the successful output")
		return
	}
	verifAssert(s1 == full, "Execute output of the shape")
	verifAssert(string(b2) == full && string(w3.data) == full && string(w4.data) == full, "the four variants must produce the same bytes")
	// the caller owns what it was given: scribble over it and over the writer's copy, render again
	for i := range b2 {
		b2[i] = '#'
	}
	for i := range w3.data {
		w3.data[i] = '#'
	}
	s5, e5 := tpl.Execute(ctx)
	b6, e6 := tpl.ExecuteBytes(ctx)
	w7 := &c14Writer{}
	e7 := tpl.ExecuteWriter(ctx, w7)
	w8 := &c14Writer{}
	e8 := tpl.ExecuteWriterUnbuffered(ctx, w8)
	verifAssert(e5 == nil && e6 == nil && e7 == nil && e8 == nil, "second round of executions must succeed like the first")
	verifAssert(s5 == full && string(b6) == full && string(w7.data) == full && string(w8.data) == full, "the four variants must produce the same bytes after the caller overwrote an earlier result")
}
