package pongo2

// C17: escaping filters neutralise exactly what they promise and lose nothing.

func c17Apply(name, x string) string {
	v, err := ApplyFilter(name, AsValue(x), nil)
	verifAssert(err == nil, "escaping filter must not fail")
	return v.String()
}

// through the template syntax, autoescape off
func c17Tpl(name, x string) string {
	out, ok := render("{% autoescape off %}{{ v|"+name+" }}{% endautoescape %}", Context{"v": x})
	verifAssert(ok, "template with escaping filter must render")
	return out
}

// validUTF8 without branching on the result (single verifAssume at the call site)
func c17ValidUTF8(s string) bool {
	for i := 0; i < len(s); {
		c := s[i]
		switch {
		case c < 0x80:
			i++
		case c >= 0xC2 && c <= 0xDF:
			if i+1 >= len(s) || s[i+1]&0xC0 != 0x80 {
				return false
			}
			i += 2
		case c >= 0xE0 && c <= 0xEF:
			if i+2 >= len(s) || s[i+1]&0xC0 != 0x80 || s[i+2]&0xC0 != 0x80 {
				return false
			}
			if c == 0xE0 && s[i+1] < 0xA0 || c == 0xED && s[i+1] > 0x9F {
				return false
			}
			i += 3
		case c >= 0xF0 && c <= 0xF4:
			if i+3 >= len(s) || s[i+1]&0xC0 != 0x80 || s[i+2]&0xC0 != 0x80 || s[i+3]&0xC0 != 0x80 {
				return false
			}
			if c == 0xF0 && s[i+1] < 0x90 || c == 0xF4 && s[i+1] > 0x8F {
				return false
			}
			i += 4
		default:
			return false
		}
	}
	return true
}

// ---- escape / e ----
func c17Unescape(s string) (string, bool) {
	ents := []string{"&amp;", "&gt;", "&lt;", "&quot;", "&#39;"}
	chars := []byte{'&', '>', '<', '"', '\''}
	var out []byte
	for i := 0; i < len(s); {
		if s[i] != '&' {
			out = append(out, s[i])
			i++
			continue
		}
		found := false
		for k, e := range ents {
			if containsAt(s, i, e) {
				out = append(out, chars[k])
				i += len(e)
				found = true
				break
			}
		}
		if !found {
			return "", false
		}
	}
	return string(out), true
}

func HarnessC17Escape() {
	n := verifParam("n", 2)
	x := symStringLen(0, n)
	verifObserve("x", x)
	name := []string{"escape", "e"}[verifChoice(2)]
	out := c17Apply(name, x)
	verifObserve("out", out)
	for i := 0; i < len(out); i++ {
		c := out[i]
		verifAssert(c != '<' && c != '>' && c != '"' && c != '\'', "escape output contains one of < > \" '")
	}
	back, ok := c17Unescape(out)
	verifAssert(ok, "escape output contains an & that does not start one of the five entities")
	verifAssert(back == x, "HTML-unescaping the escape output does not give back the input")
	verifAssert(c17Tpl(name, x) == out, "template syntax and ApplyFilter disagree (escape)")
}

// ---- urlencode ----
func c17Unhex(c byte) (byte, bool) {
	switch {
	case c >= '0' && c <= '9':
		return c - '0', true
	case c >= 'A' && c <= 'F':
		return c - 'A' + 10, true
	}
	return 0, false
}

func c17Unreserved(c byte) bool {
	return c >= 'a' && c <= 'z' || c >= 'A' && c <= 'Z' || c >= '0' && c <= '9' || c == '-' || c == '_' || c == '.' || c == '~'
}

func HarnessC17Urlencode() {
	n := verifParam("n", 1)
	x := symStringLen(0, n)
	verifObserve("x", x)
	out := c17Apply("urlencode", x)
	verifObserve("out", out)
	var dec []byte
	for i := 0; i < len(out); i++ {
		c := out[i]
		switch {
		case c == '%':
			verifAssert(i+2 < len(out), "urlencode: truncated percent escape")
			h, ok1 := c17Unhex(out[i+1])
			l, ok2 := c17Unhex(out[i+2])
			verifAssert(ok1 && ok2, "urlencode: bad hex digit")
			dec = append(dec, h<<4|l)
			i += 2
		case c == '+':
			dec = append(dec, ' ')
		default:
			verifAssert(c17Unreserved(c), "urlencode output contains a byte that is not query-safe")
			dec = append(dec, c)
		}
	}
	verifAssert(string(dec) == x, "urlencode output does not decode to the input")
	verifAssert(c17Tpl("urlencode", x) == out, "template syntax and ApplyFilter disagree (urlencode)")
}

// ---- iriencode ----
const c17IRIKeep = "/#%[]=:;$&()+,!?*@'~"

func c17Hex(n byte) byte {
	if n < 10 {
		return '0' + n
	}
	return 'A' + n - 10
}

func HarnessC17Iriencode() {
	n := verifParam("n", 1)
	x := symStringLen(0, n)
	verifAssume(c17ValidUTF8(x))
	verifObserve("x", x)
	out := c17Apply("iriencode", x)
	verifObserve("out", out)
	var want []byte
	for i := 0; i < len(x); i++ {
		c := x[i]
		switch {
		case hasByte(c17IRIKeep, c) || c17Unreserved(c):
			want = append(want, c)
		case c == ' ':
			want = append(want, '+')
		default:
			want = append(want, '%', c17Hex(c>>4), c17Hex(c&15))
		}
	}
	verifAssert(out == string(want), "iriencode must leave exactly its reserved set and the unreserved characters unencoded")
	verifAssert(c17Tpl("iriencode", x) == out, "template syntax and ApplyFilter disagree (iriencode)")
}

// ---- addslashes ----
func HarnessC17Addslashes() {
	n := verifParam("n", 2)
	x := symStringLen(0, n)
	verifObserve("x", x)
	out := c17Apply("addslashes", x)
	verifObserve("out", out)
	var want []byte
	for i := 0; i < len(x); i++ {
		c := x[i]
		if c == '\\' || c == '"' || c == '\'' {
			want = append(want, '\\')
		}
		want = append(want, c)
	}
	verifAssert(out == string(want), "addslashes must put one backslash before every quote and backslash and change nothing else")
	verifAssert(c17Tpl("addslashes", x) == out, "template syntax and ApplyFilter disagree (addslashes)")
}

// ---- safe ----
func HarnessC17Safe() {
	n := verifParam("n", 2)
	x := symStringLen(0, n)
	verifObserve("x", x)
	verifAssert(c17Apply("safe", x) == x, "safe must return its input unchanged")
	out, ok := render("{{ v|safe }}", Context{"v": x}) // autoescape ON: safe is the opt-out
	verifAssert(ok && out == x, "{{ v|safe }} must print the input unchanged")
}

// ---- escapejs ----
// Reference (pinned by the repository's fixture filters.tpl): the two-character
// input sequences backslash-r and backslash-n stand for CR and LF; every other
// character is kept if it is an ASCII letter, space or '/', else written as
// \uXXXX (upper-case hex, at least 4 digits).
func c17Hexval(c byte) (int, bool) {
	switch {
	case c >= '0' && c <= '9':
		return int(c - '0'), true
	case c >= 'A' && c <= 'F':
		return int(c-'A') + 10, true
	}
	return 0, false
}

func HarnessC17Escapejs() {
	n := verifParam("n", 1)
	x := symStringLen(0, n)
	if verifParam("lead4", 0) == 1 {
		// one character outside the BMP (a four-byte sequence), optionally followed by one more byte
		x = symStringLen(4, 5)
		verifAssume(x[0] >= 0xf0)
		verifAssume(x[0] <= 0xf4)
		for i := 1; i < 4; i++ {
			verifAssume(x[i] >= 0x80)
			verifAssume(x[i] <= 0xbf)
		}
		if len(x) == 5 {
			verifAssume(x[4] < 0x80)
		}
	}
	valid := c17ValidUTF8(x)
	verifObserve("x", x)
	out := c17Apply("escapejs", x)
	verifObserve("out", out)
	// alphabet (for every input, valid UTF-8 or not): letters, space, '/', and \u followed by >= 4 hex digits
	for i := 0; i < len(out); {
		c := out[i]
		if c >= 'a' && c <= 'z' || c >= 'A' && c <= 'Z' || c == ' ' || c == '/' {
			i++
			continue
		}
		verifAssert(c == '\\', "escapejs output contains a byte outside letters, space, / and \\uXXXX")
		verifAssert(i+1 < len(out) && out[i+1] == 'u', "escapejs output contains a backslash that does not start a \\u escape")
		k := 0
		for i+2+k < len(out) && k < 4 {
			_, ok := c17Hexval(out[i+2+k])
			if !ok {
				break
			}
			k++
		}
		verifAssert(k == 4, "escapejs: \\u escape with fewer than 4 hex digits")
		i += 6
	}
	if !valid {
		return
	}
	// expected characters of the input under the fixture-pinned reading
	var want []rune
	rs := []rune(x)
	for i := 0; i < len(rs); i++ {
		if rs[i] == '\\' && i+1 < len(rs) && rs[i+1] == 'r' {
			want = append(want, '\r')
			i++
		} else if rs[i] == '\\' && i+1 < len(rs) && rs[i+1] == 'n' {
			want = append(want, '\n')
			i++
		} else {
			want = append(want, rs[i])
		}
	}
	// decoding is existential: "\u18AAB" reads as U+18AA followed by 'B' (4 digits) - Go prints runes
	// beyond the BMP with 5 or 6 digits, so a longer reading is accepted as well when it matches
	verifAssert(c17JSMatch(out, 0, want, 0), "escapejs output does not decode to the input's characters")
	verifAssert(c17Tpl("escapejs", x) == out, "template syntax and ApplyFilter disagree (escapejs)")
}

// ---- striptags / removetags (decided through the engine's model of Go's regexp matching) ----
func c17TagText(n int) string {
	// bytes drawn from the characters that matter for tag matching, plus one free symbolic byte class
	b := make([]byte, n)
	for i := range b {
		switch verifChoice(6) {
		case 0:
			b[i] = '<'
		case 1:
			b[i] = '>'
		case 2:
			b[i] = '/'
		case 3:
			b[i] = 'b'
		case 4:
			b[i] = '\n'
		default:
			c := verifByte() // any other 7-bit byte
			verifAssume(c < 0x80)
			verifAssume(c != '<')
			verifAssume(c != '>')
			b[i] = c
		}
	}
	return string(b)
}

func HarnessC17Striptags() {
	x := c17TagText(verifParam("n", 3))
	verifObserve("x", x)
	out := c17Apply("striptags", x)
	verifObserve("out", out)
	// no complete tag may be left: no '<' that is followed by a '>' later on
	for i := 0; i < len(out); i++ {
		if out[i] == '<' {
			for j := i + 1; j < len(out); j++ {
				verifAssert(out[j] != '>', "striptags left a complete tag in its output")
			}
		}
	}
	// nothing but tags (and surrounding white space) is removed: text without '<' is kept up to trimming
	if !hasByte(x, '<') {
		verifAssert(len(out) <= len(x) && indexOf(x, out) >= 0, "striptags altered text that contains no tag")
	}
}

func c17TagAt(s string, i int) int { // length of a <b>, </b>, <b/>, </b/> form starting at i, or 0
	j := i
	if j >= len(s) || s[j] != '<' {
		return 0
	}
	j++
	if j < len(s) && s[j] == '/' {
		j++
	}
	if j >= len(s) || s[j] != 'b' {
		return 0
	}
	j++
	if j < len(s) && s[j] == '/' {
		j++
	}
	if j >= len(s) || s[j] != '>' {
		return 0
	}
	return j + 1 - i
}

func c17TrimSpace(s string) string {
	isSp := func(c byte) bool { return c == ' ' || c >= 9 && c <= 13 }
	i, j := 0, len(s)
	for i < j && isSp(s[i]) {
		i++
	}
	for j > i && isSp(s[j-1]) {
		j--
	}
	return s[i:j]
}

func HarnessC17Removetags() {
	x := c17TagText(verifParam("n", 3))
	verifObserve("x", x)
	v, err := ApplyFilter("removetags", AsValue(x), AsValue("b"))
	verifAssert(err == nil, "removetags must not fail for a valid tag name")
	out := v.String()
	verifObserve("out", out)
	var want []byte
	for i := 0; i < len(x); {
		if n := c17TagAt(x, i); n > 0 {
			i += n
			continue
		}
		want = append(want, x[i])
		i++
	}
	verifAssert(out == c17TrimSpace(string(want)), "removetags must remove exactly the named tags (<b>, </b>, <b/>, </b/>) and nothing else")
}

// c17JSMatch: does out[i:] decode to want[j:] the way JavaScript reads it: a \u escape has exactly four
// hex digits, a character outside the BMP is written as a surrogate pair of two escapes
func c17JSMatch(out string, i int, want []rune, j int) bool {
	for i < len(out) {
		if j >= len(want) {
			return false
		}
		c := out[i]
		if c != '\\' {
			if rune(c) != want[j] {
				return false
			}
			i, j = i+1, j+1
			continue
		}
		v, ok := c17Hex4(out, i)
		if !ok {
			return false
		}
		i += 6
		if v >= 0xD800 && v < 0xDC00 { // high surrogate: the low one must follow
			lo, ok2 := c17Hex4(out, i)
			if !ok2 || lo < 0xDC00 || lo > 0xDFFF {
				return false
			}
			i += 6
			v = 0x10000 + (v-0xD800)<<10 + (lo - 0xDC00)
		}
		if rune(v) != want[j] {
			return false
		}
		j++
	}
	return j == len(want)
}

// c17Hex4: the value of the escape \uXXXX at out[i:]
func c17Hex4(out string, i int) (int, bool) {
	if i+6 > len(out) || out[i] != '\\' || out[i+1] != 'u' {
		return 0, false
	}
	v := 0
	for k := 0; k < 4; k++ {
		d, ok := c17Hexval(out[i+2+k])
		if !ok {
			return 0, false
		}
		v = v<<4 | d
	}
	return v, true
}
