package pongo2

// C09: branching and looping tags follow their reference semantics.
// A small tree of tags is chosen (choice variables), printed to template source
// and compiled by the real parser; list items, watched values and conditions are
// symbolic. The output is compared with a reference interpreter of the TREE.

type c09Node struct {
	kind     int
	a, b, c  *c09Node // children (then / elif-or-else / else, loop body)
	cond     [2]string
	hasElif  bool
	hasElse  bool
	neg      bool
	seq      string // context name of the sequence
	rev, srt bool
	v        string // loop variable name / printed variable
	args     []string
	id       int
}

const (
	c09Text = iota
	c09If
	c09IfEqual
	c09FirstOf
	c09For
	c09Cycle
	c09IfChanged
	c09IfChangedBody
	c09ForStr
	c09ForMap
	c09Kinds
)

type c09Gen struct {
	ctx    Context
	bools  map[string]bool
	strs   map[string]string
	lists  map[string][]string
	n      int
	maxLen int
}

func (g *c09Gen) fresh(p string) string { g.n++; return p + itoa(g.n) }

func (g *c09Gen) letter() string { return string([]byte{verifByte()&0x0f | 0x40}) } // '@'..'O'

func (g *c09Gen) boolVar() string {
	n := g.fresh("c")
	b := verifBool()
	g.bools[n] = b
	g.ctx[n] = b
	return n
}

func (g *c09Gen) strVar() string {
	n := g.fresh("s")
	s := g.letter()
	g.strs[n] = s
	g.ctx[n] = s
	return n
}

func (g *c09Gen) list() string {
	n := g.fresh("l")
	k := verifChoice(g.maxLen + 1)
	l := make([]string, k)
	for i := range l {
		l[i] = g.letter()
	}
	g.lists[n] = l
	g.ctx[n] = l
	return n
}

// gen: depth d; loopVar != "" when directly inside a loop body (cycle/ifchanged allowed)
func (g *c09Gen) gen(d int, loopVar string, inLoop bool) *c09Node {
	kinds := []int{c09Text}
	if d > 0 {
		kinds = []int{c09Text, c09If, c09IfEqual, c09FirstOf, c09For, c09ForStr, c09ForMap}
		if loopVar != "" {
			kinds = append(kinds, c09Cycle, c09IfChanged, c09IfChangedBody)
		}
	} else if loopVar != "" {
		kinds = []int{c09Text, c09Cycle, c09IfChanged, c09IfChangedBody}
	}
	k := kinds[verifChoice(len(kinds))]
	n := &c09Node{kind: k, id: g.n}
	g.n++
	switch k {
	case c09Text:
		n.v = loopVar // prints the loop variable if any, else a constant
	case c09If:
		n.cond[0] = g.boolVar()
		n.a = g.gen(d-1, "", inLoop)
		// only the then-branch nests further; elif/else bodies are leaves (keeps the
		// number of shapes linear in the number of depth-(d-1) shapes)
		switch verifChoice(3) {
		case 1:
			n.hasElse = true
			n.c = g.gen(0, "", inLoop)
		case 2:
			n.hasElif, n.hasElse = true, true
			n.cond[1] = g.boolVar()
			n.b = g.gen(0, "", inLoop)
			n.c = g.gen(0, "", inLoop)
		}
	case c09IfEqual:
		n.neg = verifChoice(2) == 1
		n.args = []string{g.strVar(), g.strVar()}
		n.hasElse = verifChoice(2) == 1
	case c09FirstOf:
		n.args = []string{g.boolVar(), g.strVar()}
	case c09For:
		n.seq = g.list()
		n.v = g.fresh("x")
		n.rev, n.srt = verifChoice(2) == 1, verifChoice(2) == 1
		n.a = g.gen(d-1, n.v, true)
	case c09ForStr:
		n.seq = g.fresh("w")
		k := verifChoice(g.maxLen + 2)
		s := ""
		for i := 0; i < k && k <= g.maxLen; i++ {
			s += g.letter()
		}
		if k > g.maxLen {
			// unicode text: positions count characters, not bytes
			s = []string{"h\u00e9j", "\u4f60\u597da", "a\u20ac"}[verifChoice(3)]
			n.args = []string{"u"}
		}
		g.strs[n.seq] = s
		g.ctx[n.seq] = s
		n.v = g.fresh("x")
		n.rev = verifChoice(2) == 1
	case c09ForMap:
		n.seq = g.fresh("m")
		m := map[string]string{}
		keys := []string{"kb", "ka", "kc"}[:verifChoice(3)+0]
		for _, k := range keys {
			m[k] = g.letter()
		}
		g.ctx[n.seq] = m
		g.lists[n.seq] = nil
		for _, k := range []string{"ka", "kb", "kc"} { // sorted key order
			if v, ok := m[k]; ok {
				g.lists[n.seq] = append(g.lists[n.seq], k+"="+v)
			}
		}
		n.rev = verifChoice(2) == 1
	case c09Cycle:
		n.args = []string{"p", "q", "r"}[:2+verifChoice(2)]
	case c09IfChanged, c09IfChangedBody:
		n.v = loopVar
		n.hasElse = k == c09IfChanged && verifChoice(2) == 1
	}
	return n
}

func (g *c09Gen) print(n *c09Node) string {
	switch n.kind {
	case c09Text:
		if n.v != "" {
			return "{{ " + n.v + " }}"
		}
		return "t"
	case c09If:
		s := "{% if " + n.cond[0] + " %}" + g.print(n.a)
		if n.hasElif {
			s += "{% elif " + n.cond[1] + " %}" + g.print(n.b)
		}
		if n.hasElse {
			s += "{% else %}" + g.print(n.c)
		}
		return s + "{% endif %}"
	case c09IfEqual:
		t := "ifequal"
		if n.neg {
			t = "ifnotequal"
		}
		s := "{% " + t + " " + n.args[0] + " " + n.args[1] + " %}Q"
		if n.hasElse {
			s += "{% else %}U"
		}
		return s + "{% end" + t + " %}"
	case c09FirstOf:
		return "{% firstof " + n.args[0] + " " + n.args[1] + " \"lit\" %}"
	case c09For:
		s := "{% for " + n.v + " in " + n.seq
		if n.rev {
			s += " reversed"
		}
		if n.srt {
			s += " sorted"
		}
		s += " %}<{{ forloop.Counter }}{{ forloop.Counter0 }}{{ forloop.Revcounter }}{{ forloop.Revcounter0 }}" +
			"{% if forloop.First %}F{% endif %}{% if forloop.Last %}L{% endif %}" +
			"{% if forloop.Parentloop %}P{{ forloop.Parentloop.Counter }}{% endif %}" + g.print(n.a) + ">{% empty %}E{% endfor %}"
		return s
	case c09ForStr:
		s := "{% for " + n.v + " in " + n.seq
		if n.rev {
			s += " reversed"
		}
		return s + " %}{{ " + n.v + " }}{{ forloop.Counter }}{{ forloop.Revcounter0 }}{% if forloop.First %}F{% endif %}{% if forloop.Last %}L{% endif %}{% empty %}E{% endfor %}"
	case c09ForMap:
		s := "{% for k, v in " + n.seq
		if n.rev {
			s += " reversed"
		}
		return s + " sorted %}{{ k }}={{ v }}{% if not forloop.Last %},{% endif %}{% empty %}E{% endfor %}"
	case c09Cycle:
		s := "{% cycle"
		for _, a := range n.args {
			s += " \"" + a + "\""
		}
		return s + " %}"
	case c09IfChanged:
		s := "{% ifchanged " + n.v + " %}C"
		if n.hasElse {
			s += "{% else %}S"
		}
		return s + "{% endifchanged %}"
	default: // ifchanged without arguments: compares its rendered body
		return "{% ifchanged %}[{{ " + n.v + " }}]{% endifchanged %}"
	}
}

type c09Env struct {
	vars   map[string]string
	loops  []int // counters of enclosing loops (1-based), innermost last
	cyc    map[int]int
	last   map[int]string
	seen   map[int]bool
}

func (g *c09Gen) interp(n *c09Node, e *c09Env) string {
	switch n.kind {
	case c09Text:
		if n.v != "" {
			return e.vars[n.v]
		}
		return "t"
	case c09If:
		if g.bools[n.cond[0]] {
			return g.interp(n.a, e)
		}
		if n.hasElif && g.bools[n.cond[1]] {
			return g.interp(n.b, e)
		}
		if n.hasElse {
			return g.interp(n.c, e)
		}
		return ""
	case c09IfEqual:
		eq := g.strs[n.args[0]] == g.strs[n.args[1]]
		if eq != n.neg {
			return "Q"
		}
		if n.hasElse {
			return "U"
		}
		return ""
	case c09FirstOf:
		if g.bools[n.args[0]] {
			return "True"
		}
		return g.strs[n.args[1]] // letters are never empty
	case c09For:
		items := append([]string{}, g.lists[n.seq]...)
		if n.srt {
			for i := 1; i < len(items); i++ {
				for j := i; j > 0 && items[j] < items[j-1]; j-- {
					items[j], items[j-1] = items[j-1], items[j]
				}
			}
			if n.rev {
				for i, j := 0, len(items)-1; i < j; i, j = i+1, j-1 {
					items[i], items[j] = items[j], items[i]
				}
			}
		} else if n.rev {
			for i, j := 0, len(items)-1; i < j; i, j = i+1, j-1 {
				items[i], items[j] = items[j], items[i]
			}
		}
		if len(items) == 0 {
			return "E"
		}
		out := ""
		cnt := len(items)
		for i, it := range items {
			e.vars[n.v] = it
			out += "<" + itoa(i+1) + itoa(i) + itoa(cnt-i) + itoa(cnt-i-1)
			if i == 0 {
				out += "F"
			}
			if i == cnt-1 {
				out += "L"
			}
			if len(e.loops) > 0 {
				out += "P" + itoa(e.loops[len(e.loops)-1])
			}
			e.loops = append(e.loops, i+1)
			out += g.interp(n.a, e)
			e.loops = e.loops[:len(e.loops)-1]
			out += ">"
		}
		delete(e.vars, n.v)
		return out
	case c09ForStr:
		s := g.strs[n.seq]
		if len(s) == 0 {
			return "E"
		}
		out := ""
		rs := []rune(s)
		for i := 0; i < len(rs); i++ {
			c := rs[i]
			if n.rev {
				c = rs[len(rs)-1-i]
			}
			out += string(c) + itoa(i+1) + itoa(len(rs)-i-1)
			if i == 0 {
				out += "F"
			}
			if i == len(rs)-1 {
				out += "L"
			}
		}
		return out
	case c09ForMap:
		items := append([]string{}, g.lists[n.seq]...)
		if n.rev {
			for i, j := 0, len(items)-1; i < j; i, j = i+1, j-1 {
				items[i], items[j] = items[j], items[i]
			}
		}
		if len(items) == 0 {
			return "E"
		}
		out := ""
		for i, it := range items {
			out += it
			if i != len(items)-1 {
				out += ","
			}
		}
		return out
	case c09Cycle:
		i := e.cyc[n.id]
		e.cyc[n.id] = i + 1
		return n.args[i%len(n.args)]
	case c09IfChanged:
		cur := e.vars[n.v]
		changed := !e.seen[n.id] || e.last[n.id] != cur
		e.seen[n.id] = true
		e.last[n.id] = cur
		if changed {
			return "C"
		}
		if n.hasElse {
			return "S"
		}
		return ""
	default:
		cur := "[" + e.vars[n.v] + "]"
		if e.seen[n.id] && e.last[n.id] == cur {
			return ""
		}
		e.seen[n.id] = true
		e.last[n.id] = cur
		return cur
	}
}

// c09Nested reports whether a cycle/ifchanged node sits inside a loop nested in another loop
// (there the "previous iteration" is ambiguous between Django and pongo2: not generated).
func (g *c09Gen) ambiguous(n *c09Node, depth int) bool {
	if n == nil {
		return false
	}
	switch n.kind {
	case c09Cycle, c09IfChanged, c09IfChangedBody:
		return depth >= 2
	case c09For:
		return g.ambiguous(n.a, depth+1)
	}
	return g.ambiguous(n.a, depth) || g.ambiguous(n.b, depth) || g.ambiguous(n.c, depth)
}

func HarnessC09() {
	g := &c09Gen{ctx: Context{}, bools: map[string]bool{}, strs: map[string]string{}, lists: map[string][]string{}, maxLen: verifParam("len", 2)}
	t := g.gen(verifParam("depth", 2), "", false)
	// cycle / ifchanged inside a loop nested in another loop: "within one fresh render" their state lives
	// as long as the render (the inner loop continues the round-robin when it is entered again)
	src := g.print(t)
	verifObserve("src", src)
	want := g.interp(t, &c09Env{vars: map[string]string{}, cyc: map[int]int{}, last: map[int]string{}, seen: map[int]bool{}})
	out, ok := render(src, g.ctx)
	verifAssert(ok, "generated program must compile and execute")
	verifObserve("out", out)
	verifAssert(out == want, "output differs from the reference interpreter of the generated tree")
}
