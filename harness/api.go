package pongo2

// Harness API. One source, two executions:
//   - symbolically inside /verif/engine (symgo), which intercepts every verif*
//     function below BY NAME and never runs these bodies;
//   - natively (replay of a solver model, cross-validation of passing paths),
//     where the bodies below feed the harness from a recorded vector.
// The file is injected into package pongo2 as an overlay (/repo/zz_verif_api.go);
// nothing is written to /repo.

import (
	"encoding/json"
	"fmt"
	"math"
	"os"
	"sort"
	"strconv"
)

type verifCase struct {
	Harness string         `json:"harness"`
	Vector  []uint64       `json:"vector"`
	Params  map[string]int `json:"params"`
	Known   []string       `json:"known"`
}

var (
	verifCur verifCase
	verifPos int
)

type verifFailure struct{ msg string }
type verifStop struct{}

func verifNext() uint64 {
	if verifPos >= len(verifCur.Vector) {
		verifPos++
		return 0
	}
	v := verifCur.Vector[verifPos]
	verifPos++
	return v
}

func verifByte() byte       { return byte(verifNext()) }
func verifInt() int         { return int(verifNext()) }
func verifBool() bool       { return verifNext()&1 != 0 }
func verifFloat() float64   { return math.Float64frombits(verifNext()) }
func verifChoice(n int) int { return int(verifNext() % uint64(n)) }
func verifAssume(c bool) {
	if !c {
		panic(verifStop{})
	}
}
func verifAssert(c bool, what string) {
	if !c {
		panic(verifFailure{what})
	}
}
func verifObserve(tag string, v any) {
	switch x := v.(type) {
	case string:
		fmt.Printf("OBS %s=%s\n", tag, strconv.Quote(x))
	case int:
		fmt.Printf("OBS %s=%d\n", tag, x)
	case bool:
		fmt.Printf("OBS %s=%t\n", tag, x)
	default:
		fmt.Printf("OBS %s=?\n", tag)
	}
}
func verifCover(tag string) {}

// verifEnvFixed(true): from here on the engine's environment stubs (math/rand) return one fixed
// legal value instead of every possible one - for code whose result the harness does not look at.
func verifEnvFixed(on bool) {}
func verifEpoch()           {}
func verifParam(name string, def int) int {
	if v, ok := verifCur.Params[name]; ok {
		return v
	}
	return def
}
func verifKnown(id string) bool {
	for _, k := range verifCur.Known {
		if k == id {
			return true
		}
	}
	return false
}

// Monitor queries: the engine answers them from its event streams. Natively no
// monitor exists; they return "nothing observed", so a monitor obligation can
// only fail inside the engine and is confirmed by a dedicated native
// demonstration (race detector / OS canary), never by this replay.
func verifSharedWrites() int  { return 0 }
func verifEnvAccesses() int   { return 0 }
func verifUnlockedCache() int { return 0 }

// VerifMain is the native entry point: symgo builds a tiny main program that
// calls it. Argument: path of a JSON verifCase. Prints OBS lines and one
// RESULT line; a Go panic that is not part of the protocol is reported as
// RESULT panic (this is what C01 looks for).
func VerifMain() {
	b, err := os.ReadFile(os.Args[1])
	if err != nil {
		fmt.Println("RESULT setup-error", err)
		os.Exit(3)
	}
	if err := json.Unmarshal(b, &verifCur); err != nil {
		fmt.Println("RESULT setup-error", err)
		os.Exit(3)
	}
	h, ok := verifHarnessTable[verifCur.Harness]
	if !ok {
		var names []string
		for n := range verifHarnessTable {
			names = append(names, n)
		}
		sort.Strings(names)
		fmt.Println("RESULT setup-error no harness", verifCur.Harness, names)
		os.Exit(3)
	}
	defer func() {
		switch r := recover().(type) {
		case nil:
			fmt.Println("RESULT ok")
		case verifStop:
			fmt.Println("RESULT assume")
		case verifFailure:
			fmt.Printf("RESULT fail %s\n", r.msg)
		default:
			fmt.Printf("RESULT panic %v\n", r)
		}
	}()
	h()
}

// verifMonitor: engine-side obligation over the monitor event streams
// ("no-shared-writes", "no-env-access", "maps-locked"); no monitor exists natively.
func verifMonitor(what string) {}
func verifLocksHeld() int      { return -1 }
func verifLockEvents() int     { return 0 }

// verifMonitorAssert: an obligation over engine-only observations (lock state,
// monitor counters). Natively nothing can be observed, so it never fails there;
// an engine failure is confirmed by the harness's native demonstration mode.
func verifMonitorAssert(c bool, what string) {}

// verifNoRawFlow: the autoescape obligation. render(x) renders a template with
// the tainted context text x. Engine: byte provenance - no output byte whose
// term depends on a symbolic input byte may be able to equal < > & " ' under
// the path condition (constant bytes such as the <p> of linebreaks or the & of
// an entity do not depend on x and are not constrained). Native (replay of a
// solver model): differential - replacing a special character of x by a letter
// must not lower the number of raw occurrences of that character in the output.
func verifNoRawFlow(render func(string) (string, bool), x string, what string) {
	out, ok := render(x)
	if !ok {
		return
	}
	// (1) data flow, engine only: byte provenance of the output
	verifProvenance(out, what)
	// (2) differential, engine and native: also catches a special character that is re-created
	// from constant text under control of the input (escape followed by an un-escape)
	// ('&' is left to the provenance check: a filter working on rendered output may legitimately cut
	// or re-case an entity, which leaves the entity's own ampersand behind - constant text, not input)
	count := func(s string, c byte) int {
		n := 0
		for i := 0; i < len(s); i++ {
			if s[i] == c {
				n++
			}
		}
		return n
	}
	for _, c := range []byte{'<', '>', '"', '\''} {
		has := false
		b := []byte(x)
		for i := range b {
			if b[i] == c {
				has = true
				b[i] = 'q'
			}
		}
		if !has {
			continue
		}
		out2, ok2 := render(string(b))
		if ok2 {
			verifAssert(count(out, c) <= count(out2, c), what)
		}
	}
}

// verifProvenance: engine-side obligation - no byte of out whose term depends on a symbolic
// input byte can equal < > & " ' under the path condition. No provenance exists natively.
func verifProvenance(out string, what string) {}
