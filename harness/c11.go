package pongo2

// C11: templates are composed only through the set's loaders, by the names written.
// Loaders: the REAL name resolution of LocalFilesystemLoader.Abs (relative to the
// referring template, absolute names as they are) wrapped by a recording Get that
// serves a virtual tree. No file system exists inside the engine: any direct OS
// access is an environment-monitor event.

import (
	"io"
	"os"
	"sort"
	"strings"
)

type c11Loader struct {
	*LocalFilesystemLoader
	files map[string]string
	log   []string
}

func (l *c11Loader) Get(path string) (io.Reader, error) {
	l.log = append(l.log, path)
	s, ok := l.files[path]
	if !ok {
		return nil, &harnessErr{"not found: " + path}
	}
	return strings.NewReader(s), nil
}

func c11Letter() string { return string([]byte{verifByte()&0x0f | 0x40}) }

func c11Sorted(m map[string]bool) string {
	var ks []string
	for k := range m {
		ks = append(ks, k)
	}
	sort.Strings(ks)
	return strings.Join(ks, ",")
}

func c11Set(l []string) map[string]bool {
	m := map[string]bool{}
	for _, x := range l {
		m[x] = true
	}
	return m
}

func HarnessC11() {
	// root of the virtual tree. Native demonstration for an environment-monitor finding (canary=1): the
	// tree is rooted in a real temporary directory and every name that no loader serves exists there as
	// a real file - if its content or a success shows up, the loaders were bypassed.
	root := "/t"
	canary := verifParam("canary", 0) == 1
	if canary {
		d, err := os.MkdirTemp("", "verifc11")
		if err != nil {
			return
		}
		defer os.RemoveAll(d)
		root = d + "/t"
		os.MkdirAll(root+"/sub", 0o755)
	}
	// symbolic markers identify which file's content was rendered
	mA, mB, mBase, mLib, mX, mX2, mRaw := c11Letter(), c11Letter(), c11Letter(), c11Letter(), c11Letter(), c11Letter(), c11Letter()
	l1 := &c11Loader{LocalFilesystemLoader: &LocalFilesystemLoader{}, files: map[string]string{
		root+"/sub/a.tpl": mA + "{{ v }}{% include \"b.tpl\" %}{% include \"../base.tpl\" %}",
		root+"/sub/b.tpl": mB + "[{{ v }}{{ w }}]",
		root+"/sub/p.tpl": "({{ v }}{{ w }}{{ p }}{{ q }}{{ i }}{{ forloop.Counter }})",
		root+"/base.tpl":  mBase + "{% block k %}K{% endblock %}",
		root+"/lib.tpl":   "{% macro m(p) export %}" + mLib + "{{ p }}{% endmacro %}",
		root+"/raw.txt":   mRaw + "{{ not parsed }}",
		root+"/x.tpl":     mX,
		root+"/y.tpl":     "y" + mX,
	}}
	l2 := &c11Loader{LocalFilesystemLoader: &LocalFilesystemLoader{}, files: map[string]string{
		root+"/x.tpl":    mX2, // also in loader 1: loader 1 wins
		"/u/only2.tpl": "2" + mX2,
	}}
	set := NewSet("verif", l1, l2)
	form := verifChoice(26)
	verifObserve("form", form)
	var src, want string
	var fetched []string // names expected in the union of both loaders' Get logs
	// which of two files the computed rooted name denotes is decided by the solver
	sel := verifByte()
	verifAssume(sel >= 'x')
	verifAssume(sel <= 'y')
	rooted := root+"/" + string([]byte{sel}) + ".tpl"
	V, W := c11Letter(), c11Letter()
	ctx := Context{"v": V, "w": W, "rooted": rooted, "rel": "sub/b.tpl"}
	wantErr, execErr := false, false
	switch form {
	case 0: // relative include; the included file includes relative to ITSELF and via ..
		src = "{% include \"sub/a.tpl\" %}"
		want = mA + V + mB + "[" + V + W + "]" + mBase + "K"
		fetched = []string{root+"/sub/a.tpl", root+"/sub/b.tpl", root+"/base.tpl"}
	case 1: // rooted literal name
		src = "{% include \"" + root + "/x.tpl\" %}"
		want = mX
		fetched = []string{root+"/x.tpl"}
	case 2: // rooted name computed at run time renders the same as the literal
		src = "{% include rooted %}"
		want = mX
		if sel == 'y' {
			want = "y" + mX
		}
		fetched = []string{rooted}
	case 3: // relative name computed at run time
		src = "{% include rel with w=\"Q\" %}"
		want = mB + "[" + V + "Q]"
		fetched = []string{root+"/sub/b.tpl"}
	case 4: // with ... only: the included template sees only the pairs
		src = "{% include \"sub/b.tpl\" with w=\"Q\" only %}"
		want = mB + "[Q]"
		fetched = []string{root+"/sub/b.tpl"}
	case 14: // only: names bound by set / with / for in the includer are not handed down either
		src = "{% set p = v %}{% with q=v %}{% for i in l %}{% include \"sub/p.tpl\" with w=\"Q\" only %}{% include \"sub/p.tpl\" with w=\"R\" %}{% endfor %}{% endwith %}"
		ctx["l"] = []string{"1"}
		want = "(Q)(" + V + "R" + V + V + "11)"
		fetched = []string{root+"/sub/p.tpl"}
	case 15: // a child in a sub-directory extends a parent elsewhere: its relative include is relative to the CHILD
		l1.files[root+"/sub/child.tpl"] = "{% extends \"../base.tpl\" %}{% block k %}{% include \"b.tpl\" %}{% import \"../lib.tpl\" m %}{{ m(v) }}{% endblock %}"
		src = "{% include \"sub/child.tpl\" %}"
		want = mBase + mB + "[" + V + W + "]" + mLib + V
		fetched = []string{root+"/sub/child.tpl", root+"/base.tpl", root+"/sub/b.tpl", root+"/lib.tpl"}
	case 16: // the same child rendered directly (it is the template being executed)
		l1.files[root+"/sub/child.tpl"] = "{% extends \"../base.tpl\" %}{% block k %}{% ssi \"b.tpl\" parsed %}{% endblock %}"
		src = "{% extends \"sub/child.tpl\" %}"
		want = mBase + mB + "[" + V + W + "]"
		fetched = []string{root+"/sub/child.tpl", root+"/base.tpl", root+"/sub/b.tpl"}
	case 5: // missing name is an error
		src = "{% include \"nope.tpl\" %}"
		wantErr = true
		fetched = []string{root+"/nope.tpl"}
	case 6: // ... or nothing with if_exists
		src = "a{% include \"nope.tpl\" if_exists %}b"
		want = "ab"
		fetched = []string{root+"/nope.tpl"}
	case 7: // lazy missing: execution error / nothing with if_exists
		src = "a{% include missing if_exists %}b{% include missing %}"
		ctx["missing"] = "nope.tpl"
		execErr = true
		fetched = []string{root+"/nope.tpl"}
	case 8: // only the second loader has it
		src = "{% include \"/u/only2.tpl\" %}"
		want = "2" + mX2
		fetched = []string{"/u/only2.tpl"}
	case 9: // extends
		src = "{% extends \"base.tpl\" %}{% block k %}C{% endblock %}"
		want = mBase + "C"
		fetched = []string{root+"/base.tpl"}
	case 10: // import
		src = "{% import \"lib.tpl\" m %}{{ m(v) }}"
		want = mLib + V
		fetched = []string{root+"/lib.tpl"}
	case 11: // ssi parsed
		src = "{% ssi \"sub/b.tpl\" parsed %}"
		want = mB + "[" + V + W + "]"
		fetched = []string{root+"/sub/b.tpl"}
	case 12: // ssi plain: the file's bytes, not interpreted - still through the loaders
		if verifKnown("C11-ssi-plain-os") {
			verifAssume(false)
		}
		src = "{% ssi \"raw.txt\" %}"
		want = mRaw + "{{ not parsed }}"
		fetched = []string{root+"/raw.txt"}
	case 17: // a missing name is an error for every composing tag
		src = "{% extends \"nope.tpl\" %}"
		wantErr = true
		fetched = []string{root+"/nope.tpl"}
	case 18:
		src = "{% import \"nope.tpl\" m %}"
		wantErr = true
		fetched = []string{root+"/nope.tpl"}
	case 19:
		src = "{% ssi \"nope.tpl\" parsed %}"
		wantErr = true
		fetched = []string{root+"/nope.tpl"}
	case 20: // (a plain ssi must not fall back to the real file system when no loader has the name)
		src = "{% ssi \"nope.txt\" %}"
		wantErr = true
		fetched = []string{root+"/nope.txt"}
	case 21: // if_exists is about the file it names: a missing name INSIDE an existing file is still an error
		l1.files[root+"/has.tpl"] = "[" + mA + "{% include \"nope.tpl\" %}]"
		src = "A{% include \"has.tpl\" if_exists %}B"
		wantErr = true
		fetched = []string{root+"/has.tpl", root+"/nope.tpl"}
	case 22: // the same at execution time
		l1.files[root+"/has.tpl"] = "[" + mA + "{% include \"nope.tpl\" %}]"
		src = "A{% include has if_exists %}B"
		ctx["has"] = "has.tpl"
		execErr = true
		fetched = []string{root+"/has.tpl", root+"/nope.tpl"}
	case 23: // a computed relative name inside a child's block is relative to the CHILD, like a literal one
		l1.files[root+"/sub/child.tpl"] = "{% extends \"../base.tpl\" %}{% block k %}{% include relb %}|{% include \"b.tpl\" %}{% endblock %}"
		l1.files[root+"/b.tpl"] = "WRONG"
		ctx["relb"] = "b.tpl"
		src = "{% include \"sub/child.tpl\" %}"
		want = mBase + mB + "[" + V + W + "]|" + mB + "[" + V + W + "]"
		fetched = []string{root+"/sub/child.tpl", root+"/base.tpl", root+"/sub/b.tpl"}
	case 24: // one page reaches the same base through two different children: each child composes with the
		// base by the name IT wrote - what another child did to "its" base must not show
		l1.files[root+"/sub/c1.tpl"] = "{% extends \"../base.tpl\" %}{% block k %}" + mA + "{% endblock %}"
		l1.files[root+"/sub/c2.tpl"] = "{% extends \"../base.tpl\" %}{% block k %}" + mB + "{{ v }}{% endblock %}"
		src = "{% include \"sub/c1.tpl\" %}|{% include \"sub/c2.tpl\" %}|{% include \"base.tpl\" %}"
		want = mBase + mA + "|" + mBase + mB + V + "|" + mBase + "K"
		fetched = []string{root+"/sub/c1.tpl", root+"/sub/c2.tpl", root+"/base.tpl"}
	case 25: // the same name written twice (include + import of one library, two includes of one file)
		src = "{% include \"sub/b.tpl\" %}{% import \"lib.tpl\" m %}{{ m(v) }}{% include \"sub/b.tpl\" with v=w %}{% import \"lib.tpl\" m as n %}{{ n(w) }}"
		want = mB + "[" + V + W + "]" + mLib + V + mB + "[" + W + W + "]" + mLib + W
		fetched = []string{root+"/sub/b.tpl", root+"/lib.tpl"}
	default: // nothing referenced: nothing fetched
		src = "{{ v }}{# {% include \"sub/a.tpl\" %} #}{% comment %}{% include \"x.tpl\" %}{% endcomment %}"
		want = V
	}
	l1.files[root+"/main.tpl"] = src
	if canary {
		for _, name := range fetched {
			_, in1 := l1.files[name]
			_, in2 := l2.files[name]
			if !in1 && !in2 {
				os.WriteFile(name, []byte("CANARY"), 0o644)
			}
		}
	}
	verifEpoch()
	tpl, err := set.FromFile(root+"/main.tpl")
	fetched = append(fetched, root+"/main.tpl")
	if wantErr {
		verifAssert(err != nil, "a missing name must be a compile error")
	} else {
		verifAssert(err == nil, "composition must compile")
		out, err2 := tpl.Execute(ctx)
		if execErr {
			verifAssert(err2 != nil, "a missing lazily included name must be an execution error")
		} else {
			verifAssert(err2 == nil, "composition must execute")
			verifObserve("out", out)
			verifAssert(out == want, "composed output differs from the templates the names denote")
		}
	}
	got := c11Set(append(append([]string{}, l1.log...), l2.log...))
	verifObserve("fetched", c11Sorted(got))
	verifAssert(c11Sorted(got) == c11Sorted(c11Set(fetched)), "the set of names fetched through the loaders differs from the names the templates reference")
	// first loader that has a name wins: loader 2 is asked only for names loader 1 does not have
	for _, p := range l2.log {
		_, has := l1.files[p]
		verifAssert(!has, "second loader consulted although the first loader has the name")
	}
	verifMonitor("no-env-access")
}
