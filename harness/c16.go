package pongo2

// C16: diagnostics point at the right place.
// Reference: lines are 1-based and split at LF; columns are 1-based and count
// bytes (this is how the lexer counts; the property fixes no unit).

func c16Offset(src string, line, col int) int {
	off, l := 0, 1
	for l < line {
		for off < len(src) && src[off] != '\n' {
			off++
		}
		if off >= len(src) {
			return -1
		}
		off++
		l++
	}
	return off + col - 1
}

// c16Raw: the text a token occupies in the source (for trimmed delimiters the 3-byte form).
func c16Raw(t *Token) string {
	if t.Typ == TokenSymbol && t.TrimWhitespaces {
		if t.Val == "{{" || t.Val == "{%" {
			return t.Val + "-"
		}
		return "-" + t.Val
	}
	return t.Val
}

func c16CheckToken(src string, t *Token) {
	off := c16Offset(src, t.Line, t.Col)
	verifAssert(off >= 0 && off <= len(src), "token position outside the source")
	if t.Typ == TokenString {
		verifAssert(off < len(src) && (src[off] == '"' || src[off] == '\''), "string token does not start at its quote")
		return
	}
	verifAssert(containsAt(src, off, c16Raw(t)), "token text not found at its recorded position")
}

func c16Source() string {
	a, b := verifParam("a", 1), verifParam("b", 1)
	switch verifParam("sketch", 0) {
	case 0:
		return symString(a)
	case 1:
		return symString(a) + "{{" + symString(b) + "}}" + symString(1)
	case 2:
		return symString(a) + "{{ a }}" + symString(b) + "{% if b %}" + symString(1)
	case 3:
		return symString(a) + "{% verbatim %}" + symString(b) + "{% endverbatim %}" + symString(1) + "{{a}}"
	case 4:
		return symString(a) + "{#" + symString(b) + "#}" + symString(1) + "{{a}}"
	case 5:
		return symString(a) + "{{ \"" + symString(b) + "\"|x }}" + symString(1)
	default:
		return symString(a) + "{%" + symString(b) + "%}" + symString(1)
	}
}

// (a) every token (and every lexer error) of a symbolic source maps back to its text.
func HarnessC16Tokens() {
	src := c16Source()
	verifObserve("src", src)
	toks, err := lex("tpl", src)
	if err != nil {
		verifAssert(err.Filename == "tpl", "lexer error must name the template")
		off := c16Offset(src, err.Line, err.Column)
		verifAssert(off >= 0 && off <= len(src), "lexer error position outside the source")
		return
	}
	verifObserve("ntok", len(toks))
	for _, t := range toks {
		c16CheckToken(src, t)
	}
}

// (b) every compile error names its template; if it carries a position, the
// position lies inside the source and the reported token's text is found there.
func HarnessC16Errors() {
	src := c16Source()
	verifObserve("src", src)
	ml := &memLoader{files: map[string]string{"dir/tpl.html": src}}
	set := NewSet("verif", ml)
	_, err := set.FromFile("dir/tpl.html")
	if err == nil {
		return
	}
	e, ok := err.(*Error)
	verifAssert(ok, "compile error must be a *pongo2.Error")
	verifObserve("line", e.Line)
	verifObserve("col", e.Column)
	verifAssert(e.Filename == "dir/tpl.html", "compile error must name the template it occurred in")
	if e.Line > 0 {
		off := c16Offset(src, e.Line, e.Column)
		verifAssert(off >= 0 && off <= len(src), "error position outside the source")
		if e.Token != nil && e.Token.Typ != TokenError {
			verifAssert(e.Token.Line == e.Line && e.Token.Col == e.Column, "error position differs from its token's position")
			c16CheckToken(src, e.Token)
		}
	}
}

func c16Shift(p string, line, col int) (int, int) {
	k, tail := 0, len(p)
	for i := 0; i < len(p); i++ {
		if p[i] == '\n' {
			k++
			tail = len(p) - i - 1
		}
	}
	if line == 1 {
		return line + k, col + tail
	}
	return line + k, col
}

// (c) inserting text in front of a construct shifts every reported position by
// exactly the inserted lines and columns.
func HarnessC16Shift() {
	b := verifParam("b", 1)
	var s string
	switch verifParam("sketch", 0) {
	case 0:
		s = "{{" + symString(b) + "}}" + symString(1) + "{{ x }}"
	case 1:
		s = "{% if a %}" + symString(b) + "{{ " + symString(1) + " }}{% endif %}"
	default:
		s = "{{ a" + symString(b) + "}}"
	}
	p := symStringLen(1, verifParam("p", 2))
	verifAssume(noDelims(p + "{"))
	verifObserve("s", s)
	verifObserve("p", p)
	t1, e1 := lex("t", s)
	t2, e2 := lex("t", p+s)
	verifAssert((e1 == nil) == (e2 == nil), "prefix text changes whether the source lexes")
	if e1 != nil {
		l, c := c16Shift(p, e1.Line, e1.Column)
		verifAssert(e2.Line == l && e2.Column == c, "lexer error position not shifted by the inserted text")
	} else {
		verifAssert(len(t2) == len(t1)+1 && t2[0].Typ == TokenHTML && t2[0].Val == p, "prefix must become one leading text token")
		for i, t := range t1 {
			l, c := c16Shift(p, t.Line, t.Col)
			verifAssert(t2[i+1].Line == l && t2[i+1].Col == c, "token position not shifted by the inserted text")
		}
	}
	// the same through the compiler: error positions
	set := NewSet("verif", &memLoader{files: map[string]string{"a": s, "b": p + s}})
	_, ce1 := set.FromFile("a")
	_, ce2 := set.FromFile("b")
	verifAssert((ce1 == nil) == (ce2 == nil), "prefix text changes whether the source compiles")
	if ce1 != nil {
		x1, x2 := ce1.(*Error), ce2.(*Error)
		if x1.Line > 0 {
			l, c := c16Shift(p, x1.Line, x1.Column)
			verifAssert(x2.Line == l && x2.Column == c, "compile error position not shifted by the inserted text")
		} else {
			verifAssert(x2.Line <= 0, "compile error gained a position through a prefix")
		}
	}
}

// (d) a compile error raised inside an included / extended / imported file names THAT file
// and points inside THAT file's source (the includer's tag sits elsewhere).
func HarnessC16Include() {
	inc := c16Source()
	verifObserve("inc", inc)
	via := []string{"{% include \"inc\" %}", "{% extends \"inc\" %}", "{% import \"inc\" m %}", "{% ssi \"inc\" parsed %}"}[verifChoice(4)]
	main := "line one\n\n     " + via + "\n"
	set := NewSet("verif", &memLoader{files: map[string]string{"inc": inc, "main": main}})
	_, err := set.FromFile("main")
	if err == nil {
		return
	}
	e, ok := err.(*Error)
	verifAssert(ok, "compile error must be a *pongo2.Error")
	verifObserve("file", e.Filename)
	verifObserve("line", e.Line)
	verifObserve("col", e.Column)
	verifAssert(e.Filename == "inc" || e.Filename == "main", "compile error must name one of the templates involved")
	if e.Line > 0 {
		src := main
		if e.Filename == "inc" {
			src = inc
		}
		off := c16Offset(src, e.Line, e.Column)
		verifAssert(off >= 0 && off <= len(src), "error position lies outside the source of the template it names")
		if e.Token != nil && e.Token.Typ != TokenError && e.Token.Filename == e.Filename {
			c16CheckToken(src, e.Token)
		}
	}
}

// (e) execution errors in templates made of several files: the error names the file whose source
// holds the failing construct and points at its token there (a block of a child under extends, an
// included file, the body of an imported macro), whatever layout precedes the construct.
func HarnessC16Exec() {
	pad := []string{"", "\n", "  \n\t", "\r\n  x ", "é\n"}[verifChoice(5)] + symStringLen(0, 1)
	verifAssume(noDelims(pad + "{"))
	bad := []string{"{{ 10 / zero }}", "{{ nofunc(1) }}", "{% lorem 100001 %}", "{{ \"x\"|date:\"x\" }}", "{% widthratio 1 zero 1 %}{{ fail() }}"}[verifChoice(5)]
	place := verifChoice(5)
	if verifKnown("C16-missing-file-position") {
		// open finding: a missing file is reported under ITS name with the position of the tag that names it
		verifAssume(place != 4)
	}
	verifObserve("pad", pad)
	verifObserve("bad", bad)
	verifObserve("place", place)
	files := map[string]string{
		"base": "B1\n{% block k %}b{% endblock %}\nB3 {{ late }}",
		"lib":  pad + "{% macro m() export %}" + pad + bad + "{% endmacro %}",
		"inc":  "i1\n" + pad + bad,
	}
	switch place {
	case 0:
		files["main"] = "m1\n" + pad + bad + "\n"
	case 1:
		files["main"] = "{% extends \"base\" %}\n" + pad + "{% block k %}" + pad + bad + "{% endblock %}"
	case 2:
		files["main"] = "m1\n\n   {% include \"inc\" %}"
	case 3:
		files["main"] = "m1\n{% import \"lib\" m %}\n\n  {{ m() }}"
	default: // a file that does not exist, named by an include tag: a compile error
		files["main"] = "m1\n" + pad + "{% include \"nope\" %}"
	}
	set := NewSet("verif", &memLoader{files: files})
	tpl, err := set.FromFile("main")
	if place == 4 {
		verifAssert(err != nil, "a missing file must be a compile error")
		e, ok := err.(*Error)
		verifAssert(ok, "compile error must be a *pongo2.Error")
		verifObserve("file", e.Filename)
		verifObserve("line", e.Line)
		if e.Line > 0 {
			src, named := files[e.Filename]
			verifAssert(named, "an error that carries a position must name the source the position lies in (a missing file has no lines)")
			off := c16Offset(src, e.Line, e.Column)
			verifAssert(off >= 0 && off <= len(src), "error position lies outside the source of the template it names")
		}
		return
	}
	verifAssert(err == nil, "the construct fails at execution only")
	_, err2 := tpl.Execute(Context{"zero": 0, "nofunc": 5, "fail": func() (string, error) { return "", errHarness }})
	verifAssert(err2 != nil, "the construct must fail")
	e, ok := err2.(*Error)
	verifAssert(ok, "execution error must be a *pongo2.Error")
	verifObserve("file", e.Filename)
	verifObserve("line", e.Line)
	verifObserve("col", e.Column)
	if e.Line > 0 {
		src, named := files[e.Filename]
		verifAssert(named, "an error that carries a position must name the source the position lies in")
		off := c16Offset(src, e.Line, e.Column)
		verifAssert(off >= 0 && off <= len(src), "error position lies outside the source of the template it names")
		if e.Token != nil && e.Token.Typ != TokenError {
			verifAssert(e.Token.Filename == e.Filename, "the error names another source than its token")
			c16CheckToken(src, e.Token)
		}
	}
}
