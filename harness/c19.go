package pongo2

// C19: filters are applied in written order, everywhere filters can be written,
// with the same result as the public ApplyFilter; unknown names never render.

import "sort"

// parameter (as template literal, and as Go value) used with each filter in chains
type c19Arg struct {
	lit string
	val any
}

var c19Args = map[string]c19Arg{
	"add": {"\"z\"", "z"}, "center": {"5", 5}, "cut": {"\"a\"", "a"}, "default": {"\"d\"", "d"}, "default_if_none": {"\"d\"", "d"},
	"divisibleby": {"2", 2}, "get_digit": {"1", 1}, "join": {"\"-\"", "-"}, "length_is": {"2", 2}, "ljust": {"4", 4}, "rjust": {"4", 4},
	"pluralize": {"\"y,ies\"", "y,ies"}, "removetags": {"\"b\"", "b"}, "slice": {"\"1:\"", "1:"}, "split": {"\"a\"", "a"},
	"truncatechars": {"4", 4}, "truncatewords": {"1", 1}, "truncatechars_html": {"4", 4}, "truncatewords_html": {"1", 1},
	"wordwrap": {"1", 1}, "yesno": {"\"y,n,m\"", "y,n,m"}, "stringformat": {"\"%s\"", "%s"}, "urlizetrunc": {"5", 5},
	"floatformat": {"2", 2}, "date": {"\"2006\"", "2006"}, "time": {"\"15\"", "15"},
}

// filters left out of the generated chains, with the reason
var c19Excluded = map[string]string{
	"random": "non-deterministic (excluded by the property)",
	"date":   "needs a time.Time input",
	"time":   "needs a time.Time input",
}

func c19Filters() []string {
	var ns []string
	for n := range filters {
		if _, ex := c19Excluded[n]; !ex && n != "verifprobe" {
			ns = append(ns, n)
		}
	}
	sort.Strings(ns)
	return ns
}

// filters whose parameter is optional: generated with and without it
var c19Optional = map[string]bool{"yesno": true, "pluralize": true, "floatformat": true, "default": true, "stringformat": false}

// a second way of writing an argument for some filters: a float literal (three tokens)
var c19FloatArgs = map[string]c19Arg{
	"add": {"1.5", 1.5}, "default": {"2.5", 2.5}, "default_if_none": {"0.25", 0.25}, "center": {"5.0", 5.0}, "divisibleby": {"2.0", 2.0}, "floatformat": {"2.0", 2.0},
}

// c19Step is one filter of a chain, with or without its argument; how: 0 = the literal of c19Args,
// 1 = a context variable holding the same value, 2 = a path into a context map, 3 = a float literal
type c19Step struct {
	f      string
	hasArg bool
	how    int
}

func (s c19Step) lit() string {
	if a, ok := c19Args[s.f]; ok && s.hasArg {
		switch s.how {
		case 1:
			return ":a_" + s.f
		case 2:
			return ":args." + s.f
		case 3:
			return ":" + c19FloatArgs[s.f].lit
		}
		return ":" + a.lit
	}
	return ""
}

func (s c19Step) val() *Value {
	if a, ok := c19Args[s.f]; ok && s.hasArg {
		if s.how == 3 {
			return AsValue(c19FloatArgs[s.f].val)
		}
		return AsValue(a.val)
	}
	return AsValue(nil)
}

// c19Ctx: v plus the filter arguments as variables (a_<filter>) and as entries of a map (args.<filter>)
func c19Ctx(v any) Context {
	c := Context{"v": v}
	m := map[string]any{}
	for f, a := range c19Args {
		c["a_"+f] = a.val
		m[f] = a.val
	}
	c["args"] = m
	return c
}

// chain of n filters drawn from the registry
func c19Chain(n int) []c19Step {
	fs := c19Filters()
	if verifParam("core", 0) == 1 {
		fs = []string{"lower", "upper", "capfirst", "cut", "addslashes", "escape", "length", "first", "last", "default", "add", "make_list", "join", "slice", "center", "title", "yesno", "wordcount", "urlencode", "truncatechars"}
	}
	c := make([]c19Step, n)
	for i := range c {
		c[i] = c19Step{f: fs[verifChoice(len(fs))], hasArg: true}
		if c19Optional[c[i].f] && verifChoice(2) == 1 {
			c[i].hasArg = false
		}
		if _, has := c19Args[c[i].f]; has && c[i].hasArg && i == 0 {
			// the first filter of the chain gets its argument written in every way
			if _, fl := c19FloatArgs[c[i].f]; fl {
				c[i].how = verifChoice(4)
			} else {
				c[i].how = verifChoice(3)
			}
		}
	}
	return c
}

func c19Compose(chain []c19Step, v *Value) (string, bool) {
	for _, st := range chain {
		r, err := ApplyFilter(st.f, v, st.val())
		if err != nil {
			return "", false
		}
		v = r
	}
	return v.String(), true
}

func c19Expr(name string, chain []c19Step) string {
	s := name
	for _, st := range chain {
		s += "|" + st.f + st.lit()
	}
	return s
}

// (a) inline chain == ApplyFilter composition == filter tag, on the same symbolic input
func HarnessC19Chain() {
	n := verifChoice(verifParam("maxlen", 2) + 1)
	chain := c19Chain(n)
	v := asciiString(verifParam("bytes", 2))
	verifObserve("v", v)
	verifObserve("expr", c19Expr("v", chain))
	want, wok := c19Compose(chain, AsValue(v))
	out, ok := render("{% autoescape off %}{{ "+c19Expr("v", chain)+" }}{% endautoescape %}", c19Ctx(v))
	verifAssert(ok == wok, "inline chain fails iff the ApplyFilter composition fails")
	if ok {
		verifObserve("out", out)
		verifAssert(out == want, "inline chain differs from the ApplyFilter composition in written order")
	}
	if n > 0 {
		fsrc := ""
		for i, st := range chain {
			if i > 0 {
				fsrc += "|"
			}
			fsrc += st.f + st.lit()
		}
		out2, ok2 := render("{% autoescape off %}{% filter "+fsrc+" %}{{ v }}{% endfilter %}{% endautoescape %}", c19Ctx(v))
		verifAssert(ok2 == wok, "filter tag fails iff the composition fails")
		if ok2 {
			verifAssert(out2 == want, "filter tag differs from applying the chain to the rendered body")
		}
	}
}

// (b) every expression position accepts a chain and evaluates it in the current scope
func HarnessC19Positions() {
	chain := c19Chain(1 + verifChoice(verifParam("maxlen", 1)))
	v := asciiString(verifParam("bytes", 2))
	w := asciiString(1)
	want, wok := c19Compose(chain, AsValue(v))
	verifAssume(wok)
	e := c19Expr("v", chain)
	pos := verifChoice(15)
	verifObserve("pos", pos)
	verifObserve("expr", e)
	var src, exp string
	switch pos {
	case 0:
		src, exp = "{{ "+e+" }}", want
	case 1: // binds tighter than any operator
		src, exp = "{{ w + "+e+" }}", w+want
	case 2:
		src, exp = "{% with y="+e+" %}{{ y }}{% endwith %}", want
	case 3:
		src, exp = "{% set y = "+e+" %}{{ y }}", want
	case 4:
		src, exp = "{% macro m(p) %}{{ p }}{% endmacro %}{{ m("+e+") }}", want
	case 5:
		src, exp = "{% macro m(p="+e+") %}{{ p }}{% endmacro %}{{ m() }}", want
	case 13: // a default is evaluated where the macro is written, not among the macro's own parameters:
		// an earlier parameter that happens to have the name the chain starts from does not capture it
		src, exp = "{% macro m(v, p="+e+") %}{{ p }}{% endmacro %}{{ m(w) }}", want
	case 14: // the same for a name in filter-argument position of a default
		src, exp = "{% macro m(w, p=nothing|default:w) %}{{ p }}{% endmacro %}{{ m(\"Q\") }}", w
	case 6: // filter parameter position: default:<name> uses the variable's value
		src, exp = "{{ nothing|default:v }}", v
	case 7: // argument evaluated in the current scope (inner binding wins)
		src, exp = "{% with v=w %}{{ "+e+" }}{% endwith %}", ""
		x, ok := c19Compose(chain, AsValue(w))
		verifAssume(ok)
		exp = x
	case 8: // applies to literals
		lit, ok := c19Compose(chain, AsValue("Li"))
		verifAssume(ok)
		src, exp = "{{ "+c19Expr("\"Li\"", chain)+" }}", lit
	case 12: // item of an in-template list
		src = "{{ [" + e + ", w, w|upper]|join:\"|\" }}"
		up, _ := ApplyFilter("upper", AsValue(w), nil)
		exp = want + "|" + w + "|" + up.String()
	case 11: // subscript position: the filtered value selects the element
		cv := AsValue(v)
		for _, st := range chain {
			cv, _ = ApplyFilter(st.f, cv, st.val())
		}
		idx, _ := ApplyFilter("length", cv, nil)
		items := []string{"i0", "i1", "i2", "i3", "i4", "i5", "i6", "i7", "i8"}
		src = "{{ items["+e+"|length] }}"
		exp = ""
		if idx.Integer() < len(items) {
			exp = items[idx.Integer()]
		}
	case 9: // if position: truthiness of the filtered value
		r, _ := ApplyFilter("length", AsValue(v), nil)
		_ = r
		src = "{% if "+e+" %}T{% else %}F{% endif %}"
		cv := AsValue(v)
		for _, st := range chain {
			cv, _ = ApplyFilter(st.f, cv, st.val())
		}
		if cv.IsTrue() {
			exp = "T"
		} else {
			exp = "F"
		}
	default: // for position: iterate the filtered value
		src = "{% for c in "+e+" %}[{{ c }}]{% endfor %}"
		cv := AsValue(v)
		for _, st := range chain {
			cv, _ = ApplyFilter(st.f, cv, st.val())
		}
		exp = ""
		cv.Iterate(func(idx, count int, key, value *Value) bool { exp += "[" + key.String() + "]"; return true }, func() {})
	}
	pctx := c19Ctx(v)
	pctx["w"], pctx["items"] = w, []string{"i0", "i1", "i2", "i3", "i4", "i5", "i6", "i7", "i8"}
	out, ok := render("{% autoescape off %}"+src+"{% endautoescape %}", pctx)
	verifAssert(ok, "chain at this position must render")
	verifObserve("out", out)
	verifAssert(out == exp, "filter chain at this expression position differs from the ApplyFilter composition")
}

// (c) unknown names never render silently; registering a name twice is refused
func HarnessC19Unknown() {
	name := symString(verifParam("n", 3))
	for i := 0; i < len(name); i++ {
		verifAssume(name[i] >= 'a' && name[i] <= 'z')
	}
	verifObserve("name", name)
	_, isF := filters[name]
	_, isT := tags[name]
	isKw := name == "in" || name == "and" || name == "or" || name == "not" || name == "as"
	verifAssume(!isKw)
	set := NewSet("verif", &memLoader{})
	_, err := set.FromString("{{ v|" + name + " }}")
	if !isF {
		verifAssert(err != nil, "unknown filter name compiled")
	}
	_, err = set.FromString("{% " + name + " %}")
	if !isT {
		verifAssert(err != nil, "unknown tag name compiled")
	}
	tpl, err := set.FromString("{% filter " + name + " %}x{% endfilter %}")
	if !isF {
		if err == nil {
			_, err2 := tpl.Execute(nil)
			verifAssert(err2 != nil, "unknown filter in the filter tag rendered silently")
		}
	}
	_, aerr := ApplyFilter(name, AsValue("x"), nil)
	if !isF {
		verifAssert(aerr != nil, "ApplyFilter with an unknown name must fail")
	}
	// double registration
	verifAssert(RegisterFilter("upper", filters["upper"]) != nil, "registering a filter name twice must be refused")
	verifAssert(RegisterTag("if", tags["if"].parser) != nil, "registering a tag name twice must be refused")
}

// (d) a filter binds tighter than any operator - also than a unary minus / not / binary operator on a literal
func HarnessC19Binding() {
	k := int(verifByte()) - 128
	var src, want string
	switch verifChoice(6) {
	case 0:
		src, want = "{{ -5|add:k }}", itoa(-(5 + k))
	case 1:
		src, want = "{{ 2 * 3|add:k }}", itoa(2*(3+k))
	case 2:
		src, want = "{{ 10 - 3|add:k }}", itoa(10-(3+k))
	case 3:
		src, want = "{{ -n|add:k }}", itoa(-(7 + k))
	case 4:
		src = "{% if not 0|add:k %}T{% else %}F{% endif %}"
		want = "F"
		if k == 0 {
			want = "T"
		}
	default:
		src, want = "{{ -\"ab\"|length }}", "-2"
	}
	verifObserve("src", src)
	out, ok := render(src, Context{"k": k, "n": 7})
	verifObserve("out", out)
	verifAssert(ok && out == want, "a filter must bind tighter than the operator written in front of / next to its operand")
}
