package pongo2

// C06: literal text, verbatim blocks and comments are reproduced exactly.

// (a) every delimiter-free byte string renders to itself.
func HarnessC06Text() {
	n := verifParam("n", 4)
	src := symString(n)
	verifAssume(noDelims(src))
	if verifKnown("C06-byte-0x01") {
		// open finding: a 0x01 byte followed by more text truncates the template.
		verifAssume(!hasByte(src, 1))
	}
	verifObserve("src", src)
	set := NewSet("verif", &memLoader{})
	tpl, err := set.FromString(src)
	verifAssert(err == nil, "delimiter-free source must compile")
	out, err2 := tpl.Execute(nil)
	verifAssert(err2 == nil, "delimiter-free source must execute")
	verifObserve("out", out)
	verifAssert(out == src, "delimiter-free source must render to itself")
}
