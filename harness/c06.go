package pongo2

// C06: literal text, verbatim blocks and comments are reproduced exactly.

// (a) every delimiter-free byte string renders to itself.
func HarnessC06Text() {
	n := verifParam("n", 4)
	src := symStringLen(0, n) // every length up to n (a defect may depend on the exact token length)
	verifAssume(noDelims(src))
	if verifKnown("C06-byte-0x01") {
		// open finding: a 0x01 byte followed by more text truncates the template.
		verifAssume(!hasByte(src, 1))
	}
	verifObserve("src", src)
	set := NewSet("verif", &memLoader{})
	tpl, err := set.FromString(src)
	verifAssert(err == nil, "delimiter-free source must compile")
	out, err2 := tpl.Execute(nil)
	verifAssert(err2 == nil, "delimiter-free source must execute")
	verifObserve("out", out)
	verifAssert(out == src, "delimiter-free source must render to itself")
}

// c06Fragment builds one fragment of kind k and returns (source, expected rendering).
// Symbolic parts: text, verbatim body, comment content. m = number of symbolic bytes per part.
func c06Fragment(k, m int) (string, string) {
	switch k {
	case 0: // literal text
		t := symString(m)
		verifAssume(noDelims(t))
		verifAssume(len(t) == 0 || t[len(t)-1] != '{') // must not form a delimiter with its right neighbour
		return t, t
	case 1: // verbatim block: body emitted literally, never interpreted
		if verifChoice(2) == 1 {
			// bodies made of the delimiters themselves, incl. the opening marker of verbatim
			b := []string{"{{ x }}", "{% if %}", "{# c", "{% verbatim %}", "a{% verbatim %}b", "{% endverbatim", "{{", "%}"}[verifChoice(8)]
			return "{% verbatim %}" + b + "{% endverbatim %}", b
		}
		b := symString(m)
		return "{% verbatim %}" + b + "{% endverbatim %}", b
	case 2: // single-line comment, content directly between the markers (also empty: {##})
		c := symStringLen(0, m)
		verifAssume(!hasByte(c, '\n'))
		verifAssume(indexOf(c+"#}", "#}") == len(c)) // the first "#}" is the closing marker
		return "{#" + c + "#}", ""
	case 3: // comment tag with plain text content
		d := symString(m)
		verifAssume(noDelims(d))
		verifAssume(len(d) == 0 || d[len(d)-1] != '{')
		return "{% comment %}" + d + "{% endcomment %}", ""
	case 4: // comment tag whose content would fail if it were evaluated
		return "{% comment %}{{ 1/0 }}{% include nosuchvar %}{% endcomment %}", ""
	case 5: // variable with a string literal
		return "{{ \"lit\" }}", "lit"
	default: // templatetag
		names := []string{"openblock", "closeblock", "openvariable", "closevariable", "openbrace", "closebrace", "opencomment", "closecomment"}
		outs := []string{"{%", "%}", "{{", "}}", "{", "}", "{#", "#}"}
		i := verifChoice(len(names))
		return "{% templatetag " + names[i] + " %}", outs[i]
	}
}

const c06Kinds = 7

// (b) independent fragments next to each other render to the concatenation of their renderings;
// verbatim bodies are literal, comments emit nothing, templatetag emits the named delimiter.
func HarnessC06Fragments() {
	m := verifParam("m", 1)
	nf := verifParam("frags", 2)
	src, want := "", ""
	for i := 0; i < nf; i++ {
		k := verifChoice(c06Kinds)
		mm := m
		if i > 0 && mm > 1 {
			mm = 1 // keep the product of symbolic regions bounded: first fragment m bytes, others 1
		}
		if verifKnown("C06-empty-verbatim") && k == 1 {
			verifAssume(mm > 0)
		}
		s, w := c06Fragment(k, mm)
		if verifKnown("C06-adjacent-verbatim") && k == 1 {
			// open finding: a verbatim block directly after another verbatim block is a compile error
			verifAssume(!(len(src) >= 17 && src[len(src)-17:] == "{% endverbatim %}"))
		}
		verifObserve("kind", k)
		src += s
		want += w
	}
	verifObserve("src", src)
	out, ok := render(src, nil)
	verifAssert(ok, "fragment sequence must compile and execute")
	verifObserve("out", out)
	verifAssert(out == want, "fragments must render to the concatenation of their renderings")
}

// (c) verbatim: body is emitted literally for every body not containing the end marker — also empty.
func HarnessC06Verbatim() {
	m := verifChoice(verifParam("m", 2) + 1)
	b := symString(m)
	if verifKnown("C06-empty-verbatim") {
		verifAssume(m > 0)
	}
	verifObserve("body", b)
	pre := symStringLen(0, 1)
	verifAssume(noDelims(pre + "{"))
	out, ok := render(pre+"{% verbatim %}"+b+"{% endverbatim %}"+"z", nil)
	verifAssert(ok, "verbatim block must compile and execute")
	verifAssert(out == pre+b+"z", "verbatim body must be emitted literally")
}
