package pongo2

// C02: autoescape - context strings never reach the output unescaped.

import "sort"

type c02Stringer struct{ s string }

func (c c02Stringer) String() string { return c.s }

type c02Struct struct {
	F string
	P *string
	N c02NumStringer
}

// a value of NUMERIC kind that renders through String()
type c02NumStringer int

var c02NumTexts []string

func (n c02NumStringer) String() string { return c02NumTexts[int(n)] }

// routes by which the tainted text x can reach an output node (no opt-out involved)
var c02Routes = []string{
	"{{ x }}",
	"{{ s.F }}",
	"{{ s.P }}",
	"{{ l.0 }}{{ l[0] }}",
	"{{ m.k }}",
	"{% for k, v in mk sorted %}{{ k }}{% endfor %}",
	"{% for i in l %}{{ i }}{% endfor %}",
	"{% for c in x %}{{ c }}{% endfor %}",
	"{% for i in [x] %}{{ i }}{% endfor %}",
	"{{ [x]|first }}{{ [x]|last }}",
	"{{ [x]|join:\",\" }}",
	"{% set y = x %}{{ y }}",
	"{% with y=x %}{{ y }}{% endwith %}",
	"{% macro m(p) %}{{ p }}{% endmacro %}{{ m(x) }}",
	"{% macro m(p=x) %}{{ p }}{% endmacro %}{{ m() }}",
	"{% include \"inc\" with v=x %}",
	"{% include \"inc\" with v=x only %}",
	"{% filter lower %}{{ x }}{% endfilter %}",
	"{% firstof nothing x %}",
	"{% firstof x %}",
	"{% for i in l %}{% cycle x \"b\" %}{% endfor %}",
	"{% cycle x \"b\" as c %}{{ c }}",
	// a named cycle that mixes already-safe markup (macro output) with the tainted text and is advanced BY NAME:
	// whether the name's current value may be printed raw is a matter of the current value, not of the first one
	"{% macro hr() %}<hr>{% endmacro %}{% cycle hr() x as sep silent %}{% cycle sep %}[{{ sep }}]",
	"{% macro hr() %}<hr>{% endmacro %}{% cycle hr() x as sep %}{% cycle sep %}{{ sep }}{% with y=sep %}{{ y }}{% endwith %}",
	"{% macro hr() %}<hr>{% endmacro %}{% cycle x hr() as sep silent %}{{ sep }}{% cycle sep %}{% cycle sep %}{{ sep }}",
	"{% for i in l %}{% ifchanged %}{{ x }}{% endifchanged %}{% endfor %}",
	"{% for i in l %}{% ifchanged i %}{{ i }}{% endifchanged %}{% endfor %}",
	"{% block b %}{{ x }}{% endblock %}",
	"{{ x + y }}",
	"{{ \"a\" + x }}",
	"{{ nothing|default:x }}",
	"{{ x|default:\"d\" }}",
	"{{ l|join:x }}",
	"{{ l|join:\", \" }}",
	"{{ st }}",
	"{{ st|lower }}",
	"{% if x %}{{ x }}{% endif %}",
	"{% ifequal x x %}{{ x }}{% endifequal %}",
	"{% spaceless %}{{ x }}{% endspaceless %}",
	"{% with a=x %}{% with b=a %}{% set c = b %}{{ c }}{% endwith %}{% endwith %}",
	"{{ f(x) }}",
	"{% widthratio 1 2 3 %}{{ x|length }}",
	// values that render through String() on the routes that print by themselves
	"{% firstof nothing st %}",
	"{% for i in l %}{% cycle st \"b\" %}{% endfor %}",
	"{% include \"inc\" with v=st %}",
	"{% set y = st %}{{ y }}",
	"{% macro m(p) %}{{ p }}{% endmacro %}{{ m(st) }}",
	"{% for i in sts %}{{ i }}{% endfor %}{{ sts|first }}{{ sts|join:\",\" }}",
	// a Stringer of numeric kind (kind int, text from String()) on every route
	"{{ ns }}",
	"{{ s.N }}",
	"{% for i in nss %}{{ i }}{% endfor %}",
	"{% with p=ns %}{{ p }}{% endwith %}{% set q = ns %}{{ q }}",
	"{% macro m(p) %}{{ p }}{% endmacro %}{{ m(ns) }}",
	"{% firstof nothing ns %}{% for i in l %}{% cycle ns \"b\" %}{% endfor %}",
	// tainted text as a parameter of the filter TAG (its result is written without further escaping)
	"{% filter default:x %}{% endfilter %}",
	"{% filter add:x %}a{% endfilter %}",
	"{% filter lower|add:x|upper %}a{% endfilter %}",
	"{% filter join:x %}ab{% endfilter %}",
	"{% with p=x %}{% filter add:p %}a{% endfilter %}{% endwith %}",
	// ... and values that render through String() as such parameters
	"{% filter default:st %}{% endfilter %}",
	"{% filter add:st %}a{% endfilter %}",
	"{% filter join:ns %}ab{% endfilter %}",
	"{% filter default:s.N %}{% endfilter %}",
	"{{ nothing|default:st }}{{ \"a\"|add:st }}{{ l|join:ns }}",
	// tainted text combined with already-safe markup (a macro result is marked safe)
	"{% macro b() %}* {% endmacro %}{{ b() + x }}",
	"{% macro b() %}* {% endmacro %}{{ x + b() }}",
	"{% macro b() %}* {% endmacro %}{% set y = b() + x %}{{ y }}",
	"{% macro b() %}* {% endmacro %}{{ b()|add:x }}",
	"{% macro b() %}* {% endmacro %}{{ x|add:b() }}",
	"{% macro b() %}*{% endmacro %}{{ [b(), x]|join:\"\" }}",
}

// filters that are explicit opt-outs of autoescaping (named by the property)
var c02OptOut = map[string]bool{"safe": true, "truncatechars_html": true, "truncatewords_html": true}

func c02Context(x string) Context {
	xp := x
	c02NumTexts = []string{x, "k"}
	return Context{
		"ns": c02NumStringer(0), "nss": []c02NumStringer{0, 1},
		"x": x, "y": x,
		"s":  c02Struct{F: x, P: &xp, N: 0},
		"l":  []string{x, "k"},
		"m":  map[string]string{"k": x},
		"mk": map[string]int{x: 1},
		"st": c02Stringer{x}, "sts": []c02Stringer{{x}, {"k"}},
		"f":  func(s string) string { return s + "!" },
	}
}

func c02Render(src string) func(string) (string, bool) {
	return func(x string) (string, bool) {
		set := NewSet("verif", &memLoader{files: map[string]string{"inc": "[{{ v }}]"}})
		tpl, err := set.FromString(src)
		if err != nil {
			return "", false
		}
		out, err2 := tpl.Execute(c02Context(x))
		return out, err2 == nil
	}
}

func c02Known(route string) {
	if verifKnown("C02-array-literal") {
		verifAssume(indexOf(route, "[x]") < 0)
	}
	if verifKnown("C02-cycle-raw") {
		verifAssume(indexOf(route, "{% cycle x") < 0)
	}
	if verifKnown("C02-stringer-raw") {
		verifAssume(indexOf(route, "{{ st") < 0)
	}
}

// (a) every route: tainted text of n symbolic bytes
func HarnessC02Routes() {
	r := verifChoice(len(c02Routes))
	route := c02Routes[r]
	c02Known(route)
	verifObserve("route", route)
	x := symString(verifParam("n", 1))
	verifObserve("x", x)
	rend := c02Render(route)
	_, ok := rend(x)
	verifAssert(ok, "route must compile and execute")
	verifNoRawFlow(rend, x, "context text reached the output without HTML escaping")
}

// (b) every registered filter applied once to a tainted value and printed
func HarnessC02Filters() {
	var names []string
	for n := range filters {
		if !c02OptOut[n] && n != "verifprobe" {
			names = append(names, n)
		}
	}
	sort.Strings(names)
	f := names[verifChoice(len(names))]
	verifObserve("filter", f)
	x := symString(verifParam("n", 1))
	if verifParam("ascii", 1) == 1 {
		for i := 0; i < len(x); i++ {
			verifAssume(x[i] < 0x80)
		}
	}
	verifObserve("x", x)
	arg := ""
	if a, ok := c19ArgLits[f]; ok {
		arg = ":" + a
	}
	src := "{{ x|" + f + arg + " }}"
	rend := c02Render(src)
	verifNoRawFlow(rend, x, "a filtered context text reached the output without HTML escaping")
	// the filter applied through the filter tag to a body that prints the tainted text: the body is escaped
	// first, the filter then works on rendered output and its result is written as it is
	verifNoRawFlow(c02Render("{% filter "+f+arg+" %}{{ x }}{% endfilter %}"), x, "a context text printed inside a filter tag reached the output without HTML escaping")
	// and with the tainted text as the filter's argument
	if _, ok := c19ArgLits[f]; ok {
		verifNoRawFlow(c02Render("{{ \"abc\"|"+f+":x }}"), x, "a context text used as filter argument reached the output without HTML escaping")
	}
}

var c19ArgLits = map[string]string{
	"add": "\"z\"", "center": "5", "cut": "\"a\"", "default": "\"d\"", "default_if_none": "\"d\"",
	"divisibleby": "2", "get_digit": "1", "join": "\"-\"", "length_is": "2", "ljust": "4", "rjust": "4",
	"pluralize": "\"y,ies\"", "removetags": "\"b\"", "slice": "\"0:\"", "split": "\"a\"",
	"truncatechars": "4", "truncatewords": "1", "wordwrap": "1", "yesno": "\"y,n,m\"", "stringformat": "\"%s\"", "urlizetrunc": "5",
	"floatformat": "2", "date": "\"2006\"", "time": "\"15\"",
}
