package pongo2

// C12: scoping - bindings stay in their construct; caller data is never modified.
// A nesting of with / for / macro call / include / set / if with colliding names
// {a, b} is generated; probes {{ a }}{{ b }} are placed before, inside and after
// every construct. Binding values are distinct symbolic bytes, so the probe's
// output TERM identifies the binding. Reference: an environment model (stack of
// frames; set writes the innermost frame; if is transparent).

type c12Gen struct {
	ctx   Context
	vals  map[string]string // context variable name -> symbolic letter
	n     int
	lists int
}

func (g *c12Gen) val() (string, string) { // fresh context variable bound to a symbolic letter
	name := "x" + itoa(g.n)
	g.n++
	v := string([]byte{verifByte()&0x0f | 0x40})
	g.vals[name] = v
	g.ctx[name] = v
	return name, v
}

type c12Env struct {
	frames []map[string]string
	loops  int // enclosing for loops (their forloop is intact after an inner loop ends)
}

func (e *c12Env) lookup(n string) string {
	for i := len(e.frames) - 1; i >= 0; i-- {
		if v, ok := e.frames[i][n]; ok {
			return v
		}
	}
	return ""
}
func (e *c12Env) push() { e.frames = append(e.frames, map[string]string{}) }
func (e *c12Env) pop()  { e.frames = e.frames[:len(e.frames)-1] }
func (e *c12Env) set(n, v string) {
	e.frames[len(e.frames)-1][n] = v
}

const c12Probe = "({{ a }}{{ b }})"

func (e *c12Env) probe() string { return "(" + e.lookup("a") + e.lookup("b") + ")" }

// seq generates a sequence of constructs at nesting depth d and returns (source, expected output)
func (g *c12Gen) seq(d int, e *c12Env) (string, string) {
	src, want := c12Probe, e.probe()
	items := 1 + verifChoice(2)
	for i := 0; i < items; i++ {
		s, w := g.construct(d, e)
		src += s + c12Probe
		want += w + e.probe()
	}
	return src, want
}

func (g *c12Gen) construct(d int, e *c12Env) (string, string) {
	name := []string{"a", "b"}[verifChoice(2)]
	kinds := 2
	if d > 0 {
		kinds = 6
	}
	switch verifChoice(kinds) {
	case 0: // set at the current level: visible to everything after it at that level and below
		vn, v := g.val()
		e.set(name, v)
		return "{% set " + name + " = " + vn + " %}", ""
	case 1: // macro call: parameter visible only inside the macro body; sets inside do not leak
		if name == "b" {
			// a macro WITHOUT parameters whose body sets both names: nothing may leak out either
			return "{{ mz() }}", "[z]"
		}
		if verifChoice(2) == 0 {
			// argument left out: the parameter is bound all the same (to nothing) and hides the
			// context entry / global of the same name inside the macro
			return "{{ m" + name + "() }}", "[]"
		}
		vn, v := g.val()
		return "{{ m" + name + "(" + vn + ") }}", "[" + v + "]"
	case 2: // with
		vn, v := g.val()
		e.push()
		e.set(name, v)
		s, w := g.seq(d-1, e)
		e.pop()
		return "{% with " + name + "=" + vn + " %}" + s + "{% endwith %}", w
	case 3: // for over a one-element list: loop variable and forloop gone afterwards
		_, v := g.val()
		ln := "l" + itoa(g.lists)
		g.lists++
		g.ctx[ln] = []string{v}
		e.push()
		e.set(name, v)
		e.loops++
		s, w := g.seq(d-1, e)
		e.loops--
		e.pop()
		after := "[]" // forloop is gone after the loop ...
		if e.loops > 0 {
			after = "[1]" // ... and the enclosing loop's forloop is intact again (one-element lists: Counter 1)
		}
		return "{% for " + name + " in " + ln + " %}" + s + "{% endfor %}[{{ forloop.Counter }}]", w + after
	case 4: // if is transparent: a set inside a taken branch is visible after it (symbolic condition)
		cn := "c" + itoa(g.n)
		g.n++
		c := verifBool()
		g.ctx[cn] = c
		savedLoops := e.loops
		saved := make([]map[string]string, len(e.frames))
		for i, f := range e.frames {
			saved[i] = map[string]string{}
			for k, v := range f {
				saved[i][k] = v
			}
		}
		s, w := g.seq(d-1, e)
		if !c {
			e.frames = saved // branch not taken: nothing inside it happened
			e.loops = savedLoops
			w = ""
		}
		return "{% if " + cn + " %}" + s + "{% endif %}", w
	default: // include with a pair: the included template sees it, its own set does not leak back
		vn, v := g.val()
		other := "b"
		if name == "b" {
			other = "a"
		}
		return "{% include \"inc_" + name + "\" with " + name + "=" + vn + " %}", "<" + v + e.lookup(other) + ">"
	}
}

func HarnessC12() {
	g := &c12Gen{ctx: Context{}, vals: map[string]string{}}
	A := string([]byte{verifByte()&0x0f | 0x40})
	G := string([]byte{verifByte()&0x0f | 0x40})
	g.ctx["a"] = A // a: context entry; b: unbound at the start; g: only a global
	ml := &memLoader{files: map[string]string{
		"inc_a": "<{{ a }}{{ b }}>{% set a = \"leak\" %}{% set b = \"leak\" %}",
		"inc_b": "<{{ b }}{{ a }}>{% set a = \"leak\" %}{% set b = \"leak\" %}",
		"other": "{{ g }}{{ a }}",
	}}
	set := NewSet("verif", ml)
	set.Globals["g"] = G
	set.Globals["a"] = "GLOBAL" // overridden by the context entry a
	env := &c12Env{frames: []map[string]string{{"a": A}}}
	env.push() // top-level private frame
	body, want := g.seq(verifParam("depth", 1), env)
	src := "{% macro ma(a) %}[{{ a }}{% set b = \"leak\" %}]{% endmacro %}{% macro mb(b) %}[{{ b }}{% set a = \"leak\" %}]{% endmacro %}{% macro mz() %}[z{% set a = \"leak\" %}{% set b = \"leak\" %}]{% endmacro %}" +
		"{{ g }}|" + body
	verifObserve("src", src)
	// snapshot of the caller's data
	nctx := len(g.ctx)
	snap := map[string]string{}
	for k, v := range g.ctx {
		if s, ok := v.(string); ok {
			snap[k] = s
		}
	}
	tpl, err := set.FromString(src)
	verifAssert(err == nil, "generated program must compile")
	verifEpoch()
	out, err2 := tpl.Execute(g.ctx)
	verifAssert(err2 == nil, "generated program must execute")
	verifObserve("out", out)
	verifAssert(out == G+"|"+want, "probe output differs from the environment model")
	// caller's Context and the set's Globals are unchanged
	verifAssert(len(g.ctx) == nctx, "execution added or removed entries of the caller's Context")
	for k, v := range snap {
		verifAssert(g.ctx[k] == v, "execution changed an entry of the caller's Context")
	}
	verifAssert(len(set.Globals) == 2 && set.Globals["g"] == G && set.Globals["a"] == "GLOBAL", "execution changed the set's Globals")
	// globals are visible in every template of the set and overridden by context entries
	o2, err3 := set.FromFile("other")
	verifAssert(err3 == nil, "other template compiles")
	s2, _ := o2.Execute(Context{"a": A})
	verifAssert(s2 == G+A, "globals must be visible in every template of the set and be overridden by context entries")
	s3, _ := o2.Execute(nil)
	verifAssert(s3 == G+"GLOBAL", "global value must show when the context has no such entry")
}

// context keys that are not identifiers, or clash with an exported macro, are rejected
func HarnessC12Keys() {
	n := 1 + verifChoice(verifParam("n", 2))
	key := symString(n)
	verifObserve("key", key)
	ident := true
	for i := 0; i < len(key); i++ {
		c := key[i]
		if !(c >= 'a' && c <= 'z' || c >= 'A' && c <= 'Z' || c == '_' || c >= '0' && c <= '9') {
			ident = false
		}
	}
	set := NewSet("verif", &memLoader{})
	tpl, err := set.FromString("ok")
	verifAssert(err == nil, "compile")
	_, err2 := tpl.Execute(Context{key: 1})
	if !ident {
		verifAssert(err2 != nil, "a context key that is not an identifier must be rejected")
	} else {
		verifAssert(err2 == nil, "an identifier key must be accepted")
	}
	tpl2, err := set.FromString("{% macro mm() export %}x{% endmacro %}ok")
	verifAssert(err == nil, "compile")
	_, err3 := tpl2.Execute(Context{"mm": 1})
	verifAssert(err3 != nil, "a context key that clashes with an exported macro must be rejected")
	_, err4 := tpl2.Execute(Context{"mn": 1})
	verifAssert(err4 == nil, "a non-clashing key must be accepted")
}
