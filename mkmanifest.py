#!/usr/bin/env python3
"""Regenerates MANIFEST.json from harness/plan.json (claimed properties) and manifest_meta.json."""
import json
ids=[json.loads(l)['id'] for l in open('properties.jsonl')]
plan=json.load(open('harness/plan.json'))
meta=json.load(open('manifest_meta.json'))
claimed=[i for i in ids if i in plan and not i.startswith("_") and i not in meta.get('not_applicable',{})]
checks=[]
for i in claimed:
    m=meta['checks'].get(i,{})
    pp=plan[i]
    checks.append({
      "property_id":i,
      "quick_cmd":"./vcheck run %s --tier quick"%i,
      "thorough_cmd":"./vcheck run %s --tier thorough"%i,
      "evidence_file":"/verif/evidence/%s.json"%i,
      "replay_cmd_template":"./vcheck replay {path}",
      "engine":"symgo",
      "level_claimed":{"category":"model_checking",
        "text":m.get("text", "Bounded symbolic model checking of the real code: "+pp.get("claim","")),
        "design_ref":"DESIGN.md §5 "+i},
      "level_note":m.get("note","Bounds per harness are in harness/plan.json and repeated in the evidence; assumptions: "+"; ".join(pp.get("assumptions",[]))+". Outside the claim: "+"; ".join(pp.get("outside",[]))+". Trusted base: symgo interpreter/encoder (native replay of every counterexample, cross-validation of sampled passing paths), z3, library models listed in the evidence."),
      "technique":"solver-based bounded symbolic execution of the real Go code (own go/ssa executor, z3 decides every fork and obligation; counterexamples replayed natively)"})
na=[]
for i in ids:
    if i not in claimed:
        na.append({"property_id":i,"reason":meta.get('not_applicable',{}).get(i,"check not built yet (no claim made)")})
man={"version":1,"setup_cmd":"./setup.sh",
 "hooks":{"guard":"verif","enable":"none needed: harnesses are injected as go/packages / go build overlays inside package pongo2 (virtual files /repo/zz_verif_*.go); no hook code exists in /repo","baseline_off_cmd":"cd /repo && GOFLAGS=-mod=mod go test -vet=off -count=1 -timeout 25m ./...","source_commits":[],"add_only":True},
 "engines":[{"name":"symgo","path":"/verif/engine","serves_properties":claimed,"kind_free_text":"own bounded symbolic executor for go/ssa (x/tools v0.29.0) run on /repo's current working tree; z3 4.8.12 over a pipe decides every fork and obligation; models become input vectors replayed against the native build (go build -overlay)"}],
 "checks":checks,
 "notes":meta.get("notes",""),
 "not_applicable":na}
json.dump(man,open('MANIFEST.json','w'),indent=1)
print("claimed:",claimed)
