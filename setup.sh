#!/bin/sh
# Build the symbolic executor and driver from files on disk only (offline).
set -e
cd "$(dirname "$0")"
export GOFLAGS=-mod=mod GOPROXY=off GOSUMDB=off GOTOOLCHAIN=local CGO_ENABLED=0
(cd engine && go build -o ../bin/symgo .)
echo "setup ok"
