package main

import (
	"fmt"
	"go/types"
	"math"
	"strconv"
	"unicode"
)

// ---- UTF-8 encoding of a symbolic rune (string(r), WriteRune, []rune -> string) ----

// encodeRune forks on the encoding class only; bytes are terms over the rune.
func (e *Exec) encodeRune(r *Term) Str {
	if r.W != 32 {
		if r.W > 32 {
			// int -> string conversion of a wider integer: out of range values become U+FFFD
			inr := Bin(OUlt, r, Const(r.W, 0x110000))
			if !e.decide(inr) {
				return Str{s: "�"}
			}
			r = Trunc(r, 32)
		} else {
			r = Zext(r, 32)
		}
	}
	if r.IsConst() {
		return Str{s: string(rune(int32(r.V)))}
	}
	e.modelsUsed["utf8 encode (model: fork on width class)"]++
	c := func(v uint64) *Term { return Const(32, v) }
	lo8 := func(t *Term) *Term { return Trunc(t, 8) }
	shr := func(t *Term, k uint64) *Term { return Bin(OLShr, t, c(k)) }
	and := func(t *Term, m uint64) *Term { return Bin(OBAnd, t, c(m)) }
	or := func(t *Term, m uint64) *Term { return Bin(OBOr, t, c(m)) }
	if e.decide(Bin(OUlt, r, c(0x80))) {
		return mkStr([]*Term{lo8(r)})
	}
	if e.decide(Bin(OUlt, r, c(0x800))) {
		return mkStr([]*Term{lo8(or(shr(r, 6), 0xC0)), lo8(or(and(r, 0x3F), 0x80))})
	}
	// surrogates and out-of-range -> U+FFFD
	sur := And(Bin(OUle, c(0xD800), r), Bin(OUle, r, c(0xDFFF)))
	if e.decide(sur) {
		return Str{s: "�"}
	}
	if e.decide(Bin(OUlt, r, c(0x10000))) {
		return mkStr([]*Term{lo8(or(shr(r, 12), 0xE0)), lo8(or(and(shr(r, 6), 0x3F), 0x80)), lo8(or(and(r, 0x3F), 0x80))})
	}
	if e.decide(Bin(OUlt, r, c(0x110000))) {
		return mkStr([]*Term{lo8(or(shr(r, 18), 0xF0)), lo8(or(and(shr(r, 12), 0x3F), 0x80)), lo8(or(and(shr(r, 6), 0x3F), 0x80)), lo8(or(and(r, 0x3F), 0x80))})
	}
	return Str{s: "�"}
}

// ---- integer formatting of symbolic values ----

var pow10 = [...]uint64{1, 10, 100, 1000, 10000, 100000, 1000000, 10000000, 100000000, 1000000000, 10000000000,
	100000000000, 1000000000000, 10000000000000, 100000000000000, 1000000000000000, 10000000000000000,
	100000000000000000, 1000000000000000000, 10000000000000000000}

// fmtUint renders an unsigned 64-bit term in the given base: forks on the
// digit count, digits are terms (division by constants).
func (e *Exec) fmtUint(v *Term, base uint64, upper bool, minDigits int) []*Term {
	v = Zext(v, 64)
	e.modelsUsed["integer formatting (model: fork on digit count)"]++
	nd := 1
	if base == 10 {
		for nd < 20 && !e.decide(Bin(OUlt, v, Const(64, pow10[nd]))) {
			nd++
		}
	} else { // 16
		for nd < 16 && !e.decide(Bin(OUlt, v, Const(64, uint64(1)<<(4*uint(nd))))) {
			nd++
		}
	}
	n := nd
	if n < minDigits {
		n = minDigits
	}
	out := make([]*Term, n)
	for i := 0; i < n; i++ { // i = position from the right
		var d *Term
		if base == 10 {
			if i >= nd {
				d = Const(64, 0)
			} else {
				d = Bin(OURem, Bin(OUDiv, v, Const(64, pow10[i])), Const(64, 10))
			}
		} else {
			d = Bin(OBAnd, Bin(OLShr, v, Const(64, uint64(4*i))), Const(64, 15))
		}
		d8 := Trunc(d, 8)
		var ch *Term
		if base == 10 {
			ch = Bin(OAdd, d8, Const(8, '0'))
		} else {
			a := uint64('a')
			if upper {
				a = 'A'
			}
			ch = Ite(Bin(OUlt, d8, Const(8, 10)), Bin(OAdd, d8, Const(8, '0')), Bin(OAdd, d8, Const(8, a-10)))
		}
		out[n-1-i] = ch
	}
	return out
}

func (e *Exec) fmtInt(v *Term, signed bool, base uint64, upper bool, minDigits int) []*Term {
	if v.IsConst() {
		var s string
		if signed {
			s = strconv.FormatInt(sx(v.W, v.V), int(base))
		} else {
			s = strconv.FormatUint(v.V, int(base))
		}
		if upper {
			s = upperASCII(s)
		}
		neg := len(s) > 0 && s[0] == '-'
		if neg {
			s = s[1:]
		}
		for len(s) < minDigits {
			s = "0" + s
		}
		if neg {
			s = "-" + s
		}
		return Str{s: s}.Bytes()
	}
	if !signed {
		return e.fmtUint(v, base, upper, minDigits)
	}
	v = Sext(v, 64)
	if e.decide(Bin(OSlt, v, Const(64, 0))) {
		abs := Bin(OSub, Const(64, 0), v) // MinInt64 -> itself as unsigned 2^63: correct magnitude
		d := e.fmtUint(abs, base, upper, minDigits-1)
		return append([]*Term{Const(8, '-')}, d...)
	}
	return e.fmtUint(v, base, upper, minDigits)
}

func upperASCII(s string) string {
	b := []byte(s)
	for i, c := range b {
		if c >= 'a' && c <= 'z' {
			b[i] = c - 32
		}
	}
	return string(b)
}

// ---- fmt.Sprintf ----

// goValue converts a concrete engine value to a native Go value for native formatting.
func goValue(it Iface) (interface{}, bool) {
	switch v := it.v.(type) {
	case Str:
		if v.Concrete() {
			return v.s, true
		}
	case *Term:
		if !v.IsConst() {
			return nil, false
		}
		b, _ := it.t.Underlying().(*types.Basic)
		if b == nil {
			return nil, false
		}
		switch b.Kind() {
		case types.Bool:
			return v.V == 1, true
		case types.Int:
			return int(sx(v.W, v.V)), true
		case types.Int8:
			return int8(v.V), true
		case types.Int16:
			return int16(v.V), true
		case types.Int32:
			return int32(v.V), true
		case types.Int64:
			return int64(v.V), true
		case types.Uint:
			return uint(v.V), true
		case types.Uint8:
			return uint8(v.V), true
		case types.Uint16:
			return uint16(v.V), true
		case types.Uint32:
			return uint32(v.V), true
		case types.Uint64:
			return v.V, true
		case types.Uintptr:
			return uintptr(v.V), true
		case types.Float64:
			return v.Float(), true
		case types.Float32:
			return float32(v.Float()), true
		}
	case Native:
		return v.v, true
	case nil:
		if it.t == nil {
			return nil, true
		}
	}
	return nil, false
}

const opaqueStr = "\x00OPAQUE\x00"

// sprintf: concrete arguments are formatted natively; symbolic strings and
// integers are modelled for the verbs pongo2 uses on data (%s %v %d %x %X %c
// with width/zero flags as in %04X); anything else with symbolic data gives an
// opaque string (only ever used for error/log messages).
func (e *Exec) sprintf(f Str, args Slice) Value {
	if !f.Concrete() {
		// a format string built from data (rjust builds "%<width>s"): enumerate its few feasible values
		f = Str{s: e.concretizeStr(f, 24)}
	}
	allConcrete := true
	na := make([]interface{}, len(args.v))
	for i, a := range args.v {
		it := a.(Iface)
		if it.t == nil {
			na[i] = nil
			continue
		}
		if g, ok := goValue(it); ok {
			na[i] = g
			continue
		}
		// error / Stringer values: use their method result if concrete
		if s, ok := e.stringerResult(it); ok {
			if s.Concrete() {
				na[i] = opaqueErr(s.s)
				continue
			}
		}
		allConcrete = false
	}
	if allConcrete {
		return Str{s: fmt.Sprintf(f.s, na...)}
	}
	e.modelsUsed["fmt.Sprintf (model)"]++
	var out []*Term
	ai := 0
	fs := f.s
	for i := 0; i < len(fs); i++ {
		c := fs[i]
		if c != '%' {
			out = append(out, Const(8, uint64(c)))
			continue
		}
		i++
		if i >= len(fs) {
			return Str{s: opaqueStr}
		}
		if fs[i] == '%' {
			out = append(out, Const(8, '%'))
			continue
		}
		zero := false
		width := 0
		for i < len(fs) && (fs[i] == '0' && width == 0 && !zero) {
			zero = true
			i++
		}
		for i < len(fs) && fs[i] >= '0' && fs[i] <= '9' {
			width = width*10 + int(fs[i]-'0')
			i++
		}
		if i >= len(fs) || ai >= len(args.v) {
			return Str{s: opaqueStr}
		}
		verb := fs[i]
		it := args.v[ai].(Iface)
		ai++
		var piece []*Term
		switch v := it.v.(type) {
		case Str:
			if verb != 's' && verb != 'v' {
				return Str{s: opaqueStr}
			}
			piece = v.Bytes()
		case *Term:
			if v.F {
				return Str{s: opaqueStr}
			}
			if v.W == 0 {
				if verb != 't' && verb != 'v' {
					return Str{s: opaqueStr}
				}
				if v.IsConst() {
					piece = Str{s: strconv.FormatBool(v.V == 1)}.Bytes()
				} else if e.decide(v) {
					piece = Str{s: "true"}.Bytes()
				} else {
					piece = Str{s: "false"}.Bytes()
				}
				break
			}
			signed := isSigned(it.t)
			md := 0
			if zero {
				md = width
			}
			switch verb {
			case 'd', 'v':
				piece = e.fmtInt(v, signed, 10, false, md)
			case 'x':
				piece = e.fmtInt(v, signed, 16, false, md)
			case 'X':
				piece = e.fmtInt(v, signed, 16, true, md)
			case 'c':
				piece = e.encodeRune(v).Bytes()
			default:
				return Str{s: opaqueStr}
			}
		default:
			if g, ok := goValue(it); ok {
				piece = Str{s: fmt.Sprintf("%"+string(verb), g)}.Bytes()
			} else if s, ok := e.stringerResult(it); ok && (verb == 's' || verb == 'v') {
				piece = s.Bytes()
			} else {
				return Str{s: opaqueStr}
			}
		}
		for len(piece) < width && !zero {
			piece = append([]*Term{Const(8, ' ')}, piece...)
		}
		out = append(out, piece...)
	}
	return mkStr(out)
}

type opaqueErr string

func (o opaqueErr) Error() string  { return string(o) }
func (o opaqueErr) String() string { return string(o) }

// stringerResult calls Error() or String() of a value that implements them (executed as real SSA).
func (e *Exec) stringerResult(it Iface) (Str, bool) {
	if it.t == nil {
		return Str{}, false
	}
	for _, name := range []string{"Error", "String"} {
		ms := e.prog.MethodSets.MethodSet(it.t)
		for i := 0; i < ms.Len(); i++ {
			sel := ms.At(i)
			if sel.Obj().Name() != name {
				continue
			}
			sig := sel.Type().(*types.Signature)
			if sig.Params().Len() != 0 || sig.Results().Len() != 1 {
				continue
			}
			if b, ok := sig.Results().At(0).Type().Underlying().(*types.Basic); !ok || b.Kind() != types.String {
				continue
			}
			fn := e.prog.MethodValue(sel)
			if fn == nil {
				continue
			}
			r := e.callFn(fn, []Value{it.v}, nil)
			if s, ok := r.(Str); ok {
				return s, true
			}
		}
	}
	return Str{}, false
}

// ---- more string models (symbolic-capable) ----

// asciiSpace decides whether byte b is ASCII white space; a symbolic byte >= 0x80
// could be part of a Unicode space: the path is cut (ASCII assumption, stated by harnesses).
func (e *Exec) isSpaceByte(b *Term) bool {
	if b.IsConst() {
		switch b.V {
		case ' ', '\t', '\n', '\v', '\f', '\r':
			return true
		}
		if b.V >= 0x80 {
			// concrete non-ASCII byte inside an otherwise symbolic string: U+0085/U+00A0 etc. are rare; be exact for the common case
			if b.V == 0xC2 || b.V == 0xE1 || b.V == 0xE2 || b.V == 0xE3 {
				e.cut("unsupported-symbolic:unicode space candidate in symbolic string")
			}
		}
		return false
	}
	if e.decide(Bin(OUle, Const(8, 0x80), b)) {
		e.cut("unsupported-symbolic:non-ASCII byte where white space is tested (ASCII assumption)")
	}
	sp := Or(Or(Eq(b, Const(8, ' ')), And(Bin(OUle, Const(8, 9), b), Bin(OUle, b, Const(8, 13)))), tFalse)
	return e.decide(sp)
}

func init() {
	M := func(name string, f intrinsic) { intrinsics[name] = f }
	native := func(e *Exec, name string) { e.modelsUsed[name+" (model)"]++ }
	M("strings.Contains", func(e *Exec, a []Value) Value {
		s, sub := a[0].(Str), a[1].(Str)
		if s.Concrete() && sub.Concrete() {
			return Bool(stringsContains(s.s, sub.s))
		}
		native(e, "strings.Contains")
		if sub.Len() > s.Len() {
			return tFalse
		}
		r := tFalse
		for i := 0; i+sub.Len() <= s.Len(); i++ {
			r = Or(r, strEq(s.Sub(i, i+sub.Len()), sub))
		}
		return r
	})
	M("strings.Index", func(e *Exec, a []Value) Value {
		s, sub := a[0].(Str), a[1].(Str)
		if s.Concrete() && sub.Concrete() {
			return Const(64, uint64(int64(stringsIndex(s.s, sub.s))))
		}
		native(e, "strings.Index")
		for i := 0; i+sub.Len() <= s.Len(); i++ {
			if e.decide(strEq(s.Sub(i, i+sub.Len()), sub)) {
				return Const(64, uint64(i))
			}
		}
		return Const(64, ^uint64(0))
	})
	M("strings.IndexByte", func(e *Exec, a []Value) Value {
		s, c := a[0].(Str), a[1].(*Term)
		native(e, "strings.IndexByte")
		for i := 0; i < s.Len(); i++ {
			if e.decide(Eq(s.At(i), c)) {
				return Const(64, uint64(i))
			}
		}
		return Const(64, ^uint64(0))
	})
	M("strings.Split", func(e *Exec, a []Value) Value {
		s, sep := a[0].(Str), a[1].(Str)
		if s.Concrete() && sep.Concrete() {
			return e.strSlice(stringsSplit(s.s, sep.s))
		}
		native(e, "strings.Split")
		if !sep.Concrete() && sep.Len() == 0 {
			e.cut("unsupported-symbolic:Split with empty symbolic separator")
		}
		if sep.Len() == 0 {
			// split into UTF-8 sequences
			var out []Value
			for i := 0; i < s.Len(); {
				_, w := e.decodeRune(s.Sub(i, s.Len()))
				out = append(out, s.Sub(i, i+w))
				i += w
			}
			return Slice{o: e.newObj("split"), v: out, ok: true}
		}
		var out []Value
		start := 0
		i := 0
		for i+sep.Len() <= s.Len() {
			if e.decide(strEq(s.Sub(i, i+sep.Len()), sep)) {
				out = append(out, s.Sub(start, i))
				i += sep.Len()
				start = i
				continue
			}
			i++
		}
		out = append(out, s.Sub(start, s.Len()))
		return Slice{o: e.newObj("split"), v: out, ok: true}
	})
	M("strings.Fields", func(e *Exec, a []Value) Value {
		s := a[0].(Str)
		if s.Concrete() {
			return e.strSlice(stringsFields(s.s))
		}
		native(e, "strings.Fields")
		var out []Value
		start := -1
		for i := 0; i < s.Len(); i++ {
			if e.isSpaceByte(s.At(i)) {
				if start >= 0 {
					out = append(out, s.Sub(start, i))
					start = -1
				}
			} else if start < 0 {
				start = i
			}
		}
		if start >= 0 {
			out = append(out, s.Sub(start, s.Len()))
		}
		return Slice{o: e.newObj("fields"), v: out, ok: true}
	})
	M("strings.TrimSpace", func(e *Exec, a []Value) Value {
		s := a[0].(Str)
		if s.Concrete() {
			return Str{s: stringsTrimSpace(s.s)}
		}
		native(e, "strings.TrimSpace")
		i, j := 0, s.Len()
		for i < j && e.isSpaceByte(s.At(i)) {
			i++
		}
		for j > i && e.isSpaceByte(s.At(j-1)) {
			j--
		}
		return s.Sub(i, j)
	})
	M("strings.Count", func(e *Exec, a []Value) Value {
		s, sub := a[0].(Str), a[1].(Str)
		if s.Concrete() && sub.Concrete() {
			return Const(64, uint64(stringsCount(s.s, sub.s)))
		}
		e.cut("unsupported-symbolic:strings.Count")
		return nil
	})
}

// ---- math ----
func init() {
	conc := func(name string, f func(float64) float64, op Op) {
		intrinsics["math."+name] = func(e *Exec, a []Value) Value {
			x := a[0].(*Term)
			if x.IsConst() {
				return FConst(f(x.Float()))
			}
			if op != OConst {
				return FUn(op, x)
			}
			e.cut("unsupported-symbolic:math." + name)
			return nil
		}
	}
	conc("Ceil", math.Ceil, OFCeil)
	conc("Floor", math.Floor, OFFloor)
	conc("Trunc", math.Trunc, OFTrunc)
	conc("Round", math.Round, OFRoundNA)
	conc("Abs", math.Abs, OConst)
	conc("Sqrt", math.Sqrt, OConst)
	conc("Log10", math.Log10, OConst)
	intrinsics["math.Pow"] = func(e *Exec, a []Value) Value {
		x, y := a[0].(*Term), a[1].(*Term)
		if x.IsConst() && y.IsConst() {
			return FConst(math.Pow(x.Float(), y.Float()))
		}
		e.cut("unsupported-symbolic:math.Pow")
		return nil
	}
	intrinsics["math.IsNaN"] = func(e *Exec, a []Value) Value { return FUn(OFIsNaN, a[0].(*Term)) }
	intrinsics["math.IsInf"] = func(e *Exec, a []Value) Value {
		x, s := a[0].(*Term), a[1].(*Term)
		if !s.IsConst() {
			e.cut("unsupported-symbolic:math.IsInf sign")
		}
		switch sg := sx(64, s.V); {
		case sg > 0:
			return And(FUn(OFIsInf, x), Not(FUn(OFIsNeg, x)))
		case sg < 0:
			return And(FUn(OFIsInf, x), FUn(OFIsNeg, x))
		}
		return FUn(OFIsInf, x)
	}
	intrinsics["math.Float64bits"] = func(e *Exec, a []Value) Value {
		x := a[0].(*Term)
		if x.IsConst() {
			return Const(64, x.V)
		}
		if x.Op == OBV2F {
			return x.A
		}
		e.cut("unsupported-symbolic:math.Float64bits")
		return nil
	}
	intrinsics["math.Float64frombits"] = func(e *Exec, a []Value) Value { return BV2F(a[0].(*Term)) }
	intrinsics["math.Inf"] = func(e *Exec, a []Value) Value {
		return FConst(math.Inf(int(sx(64, a[0].(*Term).V))))
	}
	intrinsics["math.NaN"] = func(e *Exec, a []Value) Value { return FConst(math.NaN()) }
}

// ---- strconv integer formatting (symbolic-capable) ----
func init() {
	intrinsics["strconv.Itoa"] = func(e *Exec, a []Value) Value { return mkStr(e.fmtInt(a[0].(*Term), true, 10, false, 0)) }
	intrinsics["strconv.FormatInt"] = func(e *Exec, a []Value) Value {
		b := a[1].(*Term)
		if !b.IsConst() || (b.V != 10 && b.V != 16) {
			if a[0].(*Term).IsConst() && b.IsConst() {
				return Str{s: strconv.FormatInt(sx(64, a[0].(*Term).V), int(b.V))}
			}
			e.cut("unsupported-symbolic:strconv.FormatInt base")
		}
		return mkStr(e.fmtInt(a[0].(*Term), true, b.V, false, 0))
	}
	intrinsics["strconv.FormatUint"] = func(e *Exec, a []Value) Value {
		b := a[1].(*Term)
		if !b.IsConst() || (b.V != 10 && b.V != 16) {
			if a[0].(*Term).IsConst() && b.IsConst() {
				return Str{s: strconv.FormatUint(a[0].(*Term).V, int(b.V))}
			}
			e.cut("unsupported-symbolic:strconv.FormatUint base")
		}
		return mkStr(e.fmtInt(a[0].(*Term), false, b.V, false, 0))
	}
}

// ---- strings.Builder (real SSA except the two unsafe spots) ----
func init() {
	intrinsics["(*strings.Builder).copyCheck"] = func(e *Exec, a []Value) Value { return nil }
	intrinsics["(*strings.Builder).String"] = func(e *Exec, a []Value) Value {
		p := a[0].(Ptr)
		if p.slot == nil {
			e.gopanic("nil pointer dereference (strings.Builder)")
		}
		st := (*p.slot).(Struct)
		buf := st[1].(Slice)
		b := make([]*Term, len(buf.v))
		for i := range b {
			b[i] = buf.v[i].(*Term)
		}
		return mkStr(b)
	}
}

// ---- strconv.ParseFloat / FormatFloat ----
func init() {
	intrinsics["strconv.FormatFloat"] = func(e *Exec, a []Value) Value {
		f, fm, prec, bits := a[0].(*Term), a[1].(*Term), a[2].(*Term), a[3].(*Term)
		if f.IsConst() && fm.IsConst() && prec.IsConst() && bits.IsConst() {
			return Str{s: strconv.FormatFloat(f.Float(), byte(fm.V), int(sx(64, prec.V)), int(bits.V))}
		}
		e.cut("unsupported-symbolic:strconv.FormatFloat")
		return nil
	}
	intrinsics["strconv.ParseFloat"] = func(e *Exec, a []Value) Value {
		s := a[0].(Str)
		bits := a[1].(*Term)
		if s.Concrete() && bits.IsConst() {
			f, err := strconv.ParseFloat(s.s, int(bits.V))
			if err != nil {
				return Tuple{FConst(f), e.mkError(err.Error())}
			}
			return Tuple{FConst(f), Iface{}}
		}
		e.modelsUsed["strconv.ParseFloat (model: decimal integer syntax decided exactly; '.', exponent, inf/nan/hex spellings with symbolic bytes cut the path)"]++
		bad := Tuple{FConst(0), e.mkError("strconv.ParseFloat: parsing: invalid syntax")}
		n := s.Len()
		if n == 0 {
			return bad
		}
		i := 0
		neg := false
		c8 := func(c byte) *Term { return Const(8, uint64(c)) }
		if e.decide(Eq(s.At(0), c8('-'))) {
			neg, i = true, 1
		} else if e.decide(Eq(s.At(0), c8('+'))) {
			i = 1
		}
		if i == n {
			return bad
		}
		val := Const(64, 0)
		digits := 0
		for ; i < n; i++ {
			b := s.At(i)
			isDigit := And(Bin(OUle, c8('0'), b), Bin(OUle, b, c8('9')))
			if e.decide(isDigit) {
				digits++
				if digits > 15 {
					e.cut("unsupported-symbolic:ParseFloat with more than 15 symbolic digits")
				}
				val = Bin(OAdd, Bin(OMul, val, Const(64, 10)), Zext(Bin(OSub, b, c8('0')), 64))
				continue
			}
			// characters that could continue a float literal: . e E _ and the letters of inf/infinity/nan, hex floats
			special := tFalse
			for _, c := range []byte(".eE_iInNfFaAtTyYxXpP") {
				special = Or(special, Eq(b, c8(c)))
			}
			if e.decide(special) {
				e.cut("unsupported-symbolic:ParseFloat non-integer float syntax")
			}
			return bad
		}
		f := Int2F(val, false)
		if neg {
			f = FUn(OFNeg, f)
		}
		return Tuple{f, Iface{}}
	}
}

func init() {
	intrinsics["internal/bytealg.MakeNoZero"] = func(e *Exec, a []Value) Value {
		n := int(int64(e.concretize(a[0].(*Term), 64)))
		if n < 0 || n > 1<<24 {
			e.gopanic("makeslice: len out of range")
		}
		v := make([]Value, n)
		for i := range v {
			v[i] = Const(8, 0)
		}
		return Slice{o: e.newObj("makenozero"), v: v, ok: true}
	}
}

// ---- environment: nondeterministic stubs + environment monitor ----
func (e *Exec) envEvent(what string) {
	if e.epoch >= 2 {
		e.envAccess[what+" @"+shortSite(e.curPos())]++
	}
	e.modelsUsed[what+" (environment stub)"]++
}

func init() {
	notFound := func(e *Exec, name string) Value { return e.mkError(name + ": no such file or directory (no file system exists inside the engine)") }
	intrinsics["os.ReadFile"] = func(e *Exec, a []Value) Value {
		e.envEvent("os.ReadFile")
		return Tuple{Slice{}, notFound(e, "open")}
	}
	intrinsics["os.Open"] = func(e *Exec, a []Value) Value {
		e.envEvent("os.Open")
		return Tuple{Ptr{}, notFound(e, "open")}
	}
	intrinsics["os.Stat"] = func(e *Exec, a []Value) Value {
		e.envEvent("os.Stat")
		return Tuple{Iface{}, notFound(e, "stat")}
	}
	intrinsics["os.Getwd"] = func(e *Exec, a []Value) Value {
		e.envEvent("os.Getwd")
		return Tuple{Str{s: "/verif-nowhere"}, Iface{}}
	}
	intrinsics["math/rand.Intn"] = func(e *Exec, a []Value) Value {
		e.envEvent("math/rand.Intn")
		n := a[0].(*Term)
		if e.envFixed {
			return Const(64, 0) // verifEnvFixed(true): one legal draw instead of all of them
		}
		v := e.freshEnvVar(64)
		e.assume(Bin(OUlt, v, n))
		return v
	}
	// rand.Shuffle: ONE outcome of the Fisher-Yates shuffle (j = 0 at every step, a legal draw); the
	// environment is concretised here, what the swaps write is seen by the write monitor as usual
	intrinsics["math/rand.Shuffle"] = func(e *Exec, a []Value) Value {
		e.envEvent("math/rand.Shuffle")
		n := e.concretize(a[0].(*Term), 4096)
		for i := int64(n) - 1; i > 0; i-- {
			e.call(a[1], []Value{Const(64, uint64(i)), Const(64, 0)}, 0)
		}
		return nil
	}
	intrinsics["math/rand.Int"] = func(e *Exec, a []Value) Value {
		e.envEvent("math/rand.Int")
		v := e.freshEnvVar(64)
		return Bin(OBAnd, v, Const(64, 1<<63-1))
	}
}

// freshEnvVar: a nondeterministic environment value (not part of the harness's input vector).
func (e *Exec) freshEnvVar(w uint8) *Term {
	t := mk(Term{Op: OVar, W: w, Name: fmt.Sprintf("env%d", e.nvars)})
	e.nvars++
	return t
}

// ---- sync.Once (model): runs f at most once per Once value; f's effects are synchronised ----
func init() {
	intrinsics["(*sync.Once).Do"] = func(e *Exec, a []Value) Value {
		p := a[0].(Ptr)
		if p.slot == nil {
			e.gopanic("nil pointer dereference (sync.Once)")
		}
		if e.onceDone == nil {
			e.onceDone = map[*Value]bool{}
		}
		if e.onceDone[p.slot] {
			return nil
		}
		e.onceDone[p.slot] = true
		e.modelsUsed["sync.Once (model)"]++
		e.held++
		e.lockEvents++
		defer func() { e.held-- }()
		e.call(a[1], nil, 0)
		return nil
	}
}

// ---- sync/atomic (model: sequentially consistent accesses; counted as synchronised) ----
func init() {
	for _, ty := range []string{"Int32", "Int64", "Uint32", "Uint64", "Uintptr", "Pointer"} {
		ty := ty
		intrinsics["sync/atomic.Load"+ty] = func(e *Exec, a []Value) Value {
			return e.load(a[0].(Ptr))
		}
		intrinsics["sync/atomic.Store"+ty] = func(e *Exec, a []Value) Value {
			e.held++
			defer func() { e.held-- }()
			e.store(a[0].(Ptr), a[1])
			return nil
		}
		intrinsics["sync/atomic.Swap"+ty] = func(e *Exec, a []Value) Value {
			e.held++
			defer func() { e.held-- }()
			old := e.load(a[0].(Ptr))
			e.store(a[0].(Ptr), a[1])
			return old
		}
		intrinsics["sync/atomic.CompareAndSwap"+ty] = func(e *Exec, a []Value) Value {
			e.held++
			defer func() { e.held-- }()
			old := e.load(a[0].(Ptr))
			if e.decide(e.equals(old, a[1])) {
				e.store(a[0].(Ptr), a[2])
				return tTrue
			}
			return tFalse
		}
		if ty != "Pointer" {
			intrinsics["sync/atomic.Add"+ty] = func(e *Exec, a []Value) Value {
				e.held++
				defer func() { e.held-- }()
				old := e.load(a[0].(Ptr)).(*Term)
				nv := Bin(OAdd, old, a[1].(*Term))
				e.store(a[0].(Ptr), nv)
				return nv
			}
		}
	}
}

// ---- sync.Pool (model): a per-pool free list; Get returns a pooled object or New() ----
func init() {
	intrinsics["(*sync.Pool).Get"] = func(e *Exec, a []Value) Value {
		p := a[0].(Ptr)
		if p.slot == nil {
			e.gopanic("nil pointer dereference (sync.Pool)")
		}
		e.modelsUsed["sync.Pool (model)"]++
		if e.pools == nil {
			e.pools = map[*Value][]Value{}
		}
		if l := e.pools[p.slot]; len(l) > 0 {
			v := l[len(l)-1]
			e.pools[p.slot] = l[:len(l)-1]
			return v
		}
		st := (*p.slot).(Struct)
		nf := st[len(st)-1]
		if _, isNil := nf.(NilFunc); isNil {
			return Iface{}
		}
		return e.call(nf, nil, 0)
	}
	intrinsics["(*sync.Pool).Put"] = func(e *Exec, a []Value) Value {
		p := a[0].(Ptr)
		if p.slot == nil {
			e.gopanic("nil pointer dereference (sync.Pool)")
		}
		if e.pools == nil {
			e.pools = map[*Value][]Value{}
		}
		if it, ok := a[1].(Iface); ok && it.t == nil {
			return nil
		}
		e.pools[p.slot] = append(e.pools[p.slot], a[1])
		return nil
	}
}

// ---- sync.Map (model): an ordinary map per sync.Map value; every operation is atomic by contract,
// so nothing here is a shared write for the monitors ----
func init() {
	get := func(e *Exec, a []Value) *Map {
		p := a[0].(Ptr)
		if p.slot == nil {
			e.gopanic("nil pointer dereference (sync.Map)")
		}
		e.modelsUsed["sync.Map (model)"]++
		if e.syncMaps == nil {
			e.syncMaps = map[*Value]*Map{}
		}
		m := e.syncMaps[p.slot]
		if m == nil {
			m = &Map{o: e.newObj("sync.Map"), keyT: types.NewInterfaceType(nil, nil), m: map[string]*mapEntry{}}
			e.syncMaps[p.slot] = m
		}
		return m
	}
	intrinsics["(*sync.Map).Load"] = func(e *Exec, a []Value) Value {
		if ent := e.mapFind(get(e, a), a[1]); ent != nil {
			return Tuple{copyVal(ent.v), tTrue}
		}
		return Tuple{Iface{}, tFalse}
	}
	intrinsics["(*sync.Map).Store"] = func(e *Exec, a []Value) Value {
		e.mapSet(get(e, a), a[1], a[2])
		return nil
	}
	intrinsics["(*sync.Map).LoadOrStore"] = func(e *Exec, a []Value) Value {
		m := get(e, a)
		if ent := e.mapFind(m, a[1]); ent != nil {
			return Tuple{copyVal(ent.v), tTrue}
		}
		e.mapSet(m, a[1], a[2])
		return Tuple{a[2], tFalse}
	}
	del := func(e *Exec, a []Value) Value {
		m := get(e, a)
		ent := e.mapFind(m, a[1])
		if ent == nil {
			return Tuple{Iface{}, tFalse}
		}
		for k, x := range m.m {
			if x == ent {
				delete(m.m, k)
			}
		}
		for i, x := range m.sym {
			if x == ent {
				m.sym = append(m.sym[:i:i], m.sym[i+1:]...)
				break
			}
		}
		return Tuple{copyVal(ent.v), tTrue}
	}
	intrinsics["(*sync.Map).LoadAndDelete"] = del
	intrinsics["(*sync.Map).Delete"] = func(e *Exec, a []Value) Value { del(e, a); return nil }
	intrinsics["(*sync.Map).Range"] = func(e *Exec, a []Value) Value {
		m := get(e, a)
		var ents []*mapEntry
		for _, k := range m.sortedKeys() {
			ents = append(ents, m.m[k])
		}
		ents = append(ents, m.sym...)
		for _, ent := range ents {
			r := e.call(a[1], []Value{copyVal(ent.k), copyVal(ent.v)}, 0)
			if t, ok := r.(*Term); ok && !e.decide(t) {
				break
			}
		}
		return nil
	}
}

// ---- unicode predicates and case mapping (tables read from the real package) ----
func rangeTableTerm(r *Term, rt *unicode.RangeTable) *Term {
	c := tFalse
	in := func(lo, hi, stride uint32) {
		if stride == 1 {
			c = Or(c, And(Bin(OUle, Const(32, uint64(lo)), r), Bin(OUle, r, Const(32, uint64(hi)))))
			return
		}
		// strided range: lo <= r <= hi && (r-lo) % stride == 0
		d := Bin(OSub, r, Const(32, uint64(lo)))
		c = Or(c, And(And(Bin(OUle, Const(32, uint64(lo)), r), Bin(OUle, r, Const(32, uint64(hi)))), Eq(Bin(OURem, d, Const(32, uint64(stride))), Const(32, 0))))
	}
	for _, x := range rt.R16 {
		in(uint32(x.Lo), uint32(x.Hi), uint32(x.Stride))
	}
	for _, x := range rt.R32 {
		in(x.Lo, x.Hi, x.Stride)
	}
	return c
}

func init() {
	pred := func(name string, f func(rune) bool, rt *unicode.RangeTable) {
		intrinsics["unicode."+name] = func(e *Exec, a []Value) Value {
			r := a[0].(*Term)
			if r.IsConst() {
				return Bool(f(rune(int32(r.V))))
			}
			e.modelsUsed["unicode."+name+" (model: the package's range table as one term)"]++
			return rangeTableTerm(Zext(r, 32), rt)
		}
	}
	pred("IsLetter", unicode.IsLetter, unicode.Letter)
	pred("IsDigit", unicode.IsDigit, unicode.Digit)
	pred("IsNumber", unicode.IsNumber, unicode.Number)
	pred("IsUpper", unicode.IsUpper, unicode.Upper)
	pred("IsLower", unicode.IsLower, unicode.Lower)
	pred("IsPunct", unicode.IsPunct, unicode.Punct)
	pred("IsSpace", unicode.IsSpace, unicode.White_Space)
	cm := func(name string, f func(rune) rune, lo, hi byte, delta uint64) {
		intrinsics["unicode."+name] = func(e *Exec, a []Value) Value {
			r := a[0].(*Term)
			if r.IsConst() {
				return Const(32, uint64(uint32(f(rune(int32(r.V))))))
			}
			if e.decide(Bin(OUle, Const(32, 0x80), r)) {
				e.cut("unsupported-symbolic:non-ASCII case mapping")
			}
			in := And(Bin(OUle, Const(32, uint64(lo)), r), Bin(OUle, r, Const(32, uint64(hi))))
			return Ite(in, Bin(OAdd, r, Const(32, delta)), r)
		}
	}
	cm("ToUpper", unicode.ToUpper, 'a', 'z', 0xFFFFFFE0)
	cm("ToLower", unicode.ToLower, 'A', 'Z', 0x20)
}
