package main

import (
	"bufio"
	"fmt"
	"io"
	"os"
	"os/exec"
	"strconv"
	"strings"
	"sync"
	"time"
)

// Solver is one live SMT solver process (z3 -in by default) driven over a
// pipe with push/pop. No set-logic is sent: z3 4.8.12 silently drops what a
// restrictive logic cannot parse. Any "(error" line makes the answer "unknown".
type Solver struct {
	cmd        *exec.Cmd
	in         io.WriteCloser
	out        *bufio.Reader
	ctx        *emitCtx
	buf        strings.Builder
	nQuery     int
	nSat       int
	nUnsat     int
	nUnk       int
	tSolve     time.Duration
	maxQ       time.Duration
	lastPushed bool
	log        *strings.Builder // full transcript of the current path (for --dump-queries and cross-checks)
	base       strings.Builder  // declarations, definitions and path constraints of the current path (no push/pop segments)
	nFallback  int
	fbModel    map[string]uint64
}

var solverCmd = []string{"z3", "-in", "-t:10000"}

// second solver, asked when the first one gives up: cvc5 with the integer
// encoding of bit-vector arithmetic, which decides mul/div/rem equivalences
// that bit-blasting does not finish (one process per query; rare)
var fallbackFPCmd = []string{"cvc5", "--fp-exp", "--tlimit=120000", "--produce-models"}
var fallbackCmd = []string{"cvc5", "--solve-bv-as-int=sum", "--tlimit=20000", "--produce-models"}
var dumpQueries *os.File
var dumpMu sync.Mutex

func (s *Solver) start() {
	cmd := exec.Command(solverCmd[0], solverCmd[1:]...)
	in, _ := cmd.StdinPipe()
	out, _ := cmd.StdoutPipe()
	if err := cmd.Start(); err != nil {
		panic(err)
	}
	s.cmd, s.in, s.out = cmd, in, bufio.NewReaderSize(out, 1<<16)
}

func NewSolver() *Solver {
	s := &Solver{}
	s.start()
	if dumpQueries != nil {
		s.log = &strings.Builder{}
	}
	s.Reset()
	return s
}

// setSolverTimeout changes the per-query limits for the solvers started next (0 = default).
func setSolverTimeout(ms int) {
	if ms <= 0 {
		ms = 10000
	}
	solverCmd = []string{"z3", "-in", fmt.Sprintf("-t:%d", ms)}
	hardTimeout = time.Duration(ms)*time.Millisecond + 15*time.Second
}

// hard limit per query: z3's soft timeout (-t) is not honoured in every phase
// (e.g. preprocessing of division by constants); a solver that does not answer
// is killed and restarted, the answer is "unknown"
var hardTimeout = 25 * time.Second

func (s *Solver) restart() {
	s.cmd.Process.Kill()
	s.in.Close()
	s.cmd.Wait()
	s.start()
	// re-establish the permanent part of the current path
	io.WriteString(s.in, s.base.String())
}

func (s *Solver) Close() { s.in.Close(); s.cmd.Wait() }

func (s *Solver) Reset() {
	if s.log != nil && s.log.Len() > 0 {
		dumpMu.Lock()
		dumpQueries.WriteString(s.log.String())
		dumpQueries.WriteString("; ---- end of path ----\n")
		dumpMu.Unlock()
		s.log.Reset()
	}
	s.buf.Reset()
	s.base.Reset()
	s.buf.WriteString("(reset)\n")
	s.ctx = &emitCtx{names: map[*Term]string{}, out: &s.buf}
	s.lastPushed = false
}

func (s *Solver) Assert(t *Term) {
	r := s.ctx.ref(t)
	fmt.Fprintf(&s.buf, "(assert %s)\n", r)
}

func (s *Solver) flush() {
	if s.log != nil {
		s.log.WriteString(s.buf.String())
	}
	// keep the permanent part of the transcript (everything before a "(push)")
	t := s.buf.String()
	if i := strings.Index(t, "(push)\n"); i >= 0 {
		t = t[:i]
	}
	t = strings.ReplaceAll(t, "(pop)\n", "")
	t = strings.ReplaceAll(t, "(reset)\n", "")
	t = strings.ReplaceAll(t, "(check-sat)\n", "")
	s.base.WriteString(t)
	io.WriteString(s.in, s.buf.String())
	s.buf.Reset()
}

// Check returns "sat"/"unsat"/"unknown..." for PC ∧ extra (extra may be nil).
func (s *Solver) Check(extra *Term) string {
	t0 := time.Now()
	if extra != nil {
		r := s.ctx.ref(extra) // definitions stay outside the push (harmless)
		fmt.Fprintf(&s.buf, "(push)\n(assert %s)\n(check-sat)\n", r)
	} else {
		s.buf.WriteString("(check-sat)\n")
	}
	s.flush()
	killed := false
	timer := time.AfterFunc(hardTimeout, func() { killed = true; s.cmd.Process.Kill() })
	line, err := s.out.ReadString('\n')
	timer.Stop()
	if err != nil {
		if !killed {
			panic("solver died: " + err.Error())
		}
		s.restart()
		if extra != nil {
			// restore the push level the caller expects to pop
			io.WriteString(s.in, "(push)\n")
		}
		line = "unknown-killed-after-hard-timeout"
	}
	res := strings.TrimSpace(line)
	if strings.HasPrefix(res, "(error") {
		res = "unknown:" + res
	} else if res != "sat" && res != "unsat" {
		res = "unknown:" + res
	}
	s.lastPushed = extra != nil
	s.fbModel = nil
	if strings.HasPrefix(res, "unknown") {
		res = s.fallback(extra, res)
	}
	s.nQuery++
	switch res {
	case "sat":
		s.nSat++
	case "unsat":
		s.nUnsat++
	default:
		s.nUnk++
	}
	d := time.Since(t0)
	s.tSolve += d
	if d > s.maxQ {
		s.maxQ = d
	}
	if s.log != nil {
		fmt.Fprintf(s.log, "; => %s (%.1f ms)\n", res, float64(d.Microseconds())/1000)
	}
	return res
}

// fallback re-asks the current query to the second solver (one-shot process).
func (s *Solver) fallback(extra *Term, first string) string {
	s.nFallback++
	var sb strings.Builder
	sb.WriteString("(set-logic ALL)\n")
	sb.WriteString(s.base.String())
	if extra != nil {
		// definitions needed by extra are already in base (emitted before the push)
		sb.WriteString("(assert " + s.ctx.ref(extra) + ")\n")
	}
	sb.WriteString("(check-sat)\n")
	if len(s.ctx.vars) > 0 {
		names := make([]string, len(s.ctx.vars))
		for i, v := range s.ctx.vars {
			names[i] = v.Name
		}
		sb.WriteString("(get-value (" + strings.Join(names, " ") + "))\n")
	}
	f, err := os.CreateTemp("", "verifq*.smt2")
	if err != nil {
		return first
	}
	if os.Getenv("VERIF_KEEP_FALLBACK") == "" {
		defer os.Remove(f.Name())
	}
	f.WriteString(sb.String())
	f.Close()
	fb := fallbackCmd
	if strings.Contains(sb.String(), "FloatingPoint") {
		fb = fallbackFPCmd // the integer encoding does not cover FP; cvc5's FP solver is much faster than z3's here
	}
	out, _ := exec.Command(fb[0], append(fb[1:], f.Name())...).Output()
	txt := string(out)
	line := ""
	for _, l := range strings.Split(txt, "\n") {
		l = strings.TrimSpace(l)
		if l == "sat" || l == "unsat" || l == "unknown" {
			line = l
			break
		}
	}
	if s.log != nil {
		fmt.Fprintf(s.log, "; fallback %s => %s\n", strings.Join(fallbackCmd, " "), line)
	}
	switch line {
	case "unsat":
		if strings.Contains(txt, "(error") && !strings.Contains(txt, "cannot get value") && !strings.Contains(txt, "Cannot get") {
			return first
		}
		return "unsat"
	case "sat":
		if strings.Contains(txt, "(error") {
			return first
		}
		s.fbModel = s.parseModel(txt)
		return "sat"
	}
	return first
}

// Model must be called right after a sat Check (before Pop).
func (s *Solver) Model() map[string]uint64 {
	if s.fbModel != nil {
		return s.fbModel
	}
	m := map[string]uint64{}
	if len(s.ctx.vars) == 0 {
		return m
	}
	names := make([]string, len(s.ctx.vars))
	for i, v := range s.ctx.vars {
		names[i] = v.Name
	}
	io.WriteString(s.in, "(get-value ("+strings.Join(names, " ")+"))\n")
	depth := 0
	var sb strings.Builder
	for {
		line, err := s.out.ReadString('\n')
		if err != nil {
			panic(err)
		}
		sb.WriteString(line)
		depth += strings.Count(line, "(") - strings.Count(line, ")")
		if depth <= 0 {
			break
		}
	}
	txt := sb.String()
	if strings.HasPrefix(strings.TrimSpace(txt), "(error") {
		panic("solver get-value: " + txt)
	}
	return s.parseModel(txt)
}

func (s *Solver) parseModel(txt string) map[string]uint64 {
	m := map[string]uint64{}
	// parse (name value) pairs; values are #x.., #b.., true, false or (_ bvN W)
	for _, v := range s.ctx.vars {
		i := strings.Index(txt, "("+v.Name+" ")
		if i < 0 {
			continue
		}
		rest := txt[i+len(v.Name)+2:]
		val := rest
		if strings.HasPrefix(rest, "(_ bv") {
			j := strings.Index(rest[5:], " ")
			u, _ := strconv.ParseUint(rest[5:5+j], 10, 64)
			m[v.Name] = u
			continue
		}
		j := strings.IndexAny(rest, ")\n")
		val = strings.TrimSpace(rest[:j])
		switch {
		case val == "true":
			m[v.Name] = 1
		case val == "false":
			m[v.Name] = 0
		case strings.HasPrefix(val, "#x"):
			u, _ := strconv.ParseUint(val[2:], 16, 64)
			m[v.Name] = u
		case strings.HasPrefix(val, "#b"):
			u, _ := strconv.ParseUint(val[2:], 2, 64)
			m[v.Name] = u
		}
	}
	return m
}

func (s *Solver) Pop() {
	if s.lastPushed {
		s.buf.WriteString("(pop)\n")
		s.lastPushed = false
	}
}
