package main

import (
	"bufio"
	"fmt"
	"io"
	"os"
	"os/exec"
	"strconv"
	"strings"
	"sync"
	"time"
)

// Solver is one live SMT solver process (z3 -in by default) driven over a
// pipe with push/pop. No set-logic is sent: z3 4.8.12 silently drops what a
// restrictive logic cannot parse. Any "(error" line makes the answer "unknown".
type Solver struct {
	cmd        *exec.Cmd
	in         io.WriteCloser
	out        *bufio.Reader
	ctx        *emitCtx
	buf        strings.Builder
	nQuery     int
	nSat       int
	nUnsat     int
	nUnk       int
	tSolve     time.Duration
	maxQ       time.Duration
	lastPushed bool
	log        *strings.Builder // full transcript of the current path (for --dump-queries and cross-checks)
}

var solverCmd = []string{"z3", "-in", "-t:30000"}
var dumpQueries *os.File
var dumpMu sync.Mutex

func NewSolver() *Solver {
	cmd := exec.Command(solverCmd[0], solverCmd[1:]...)
	in, _ := cmd.StdinPipe()
	out, _ := cmd.StdoutPipe()
	if err := cmd.Start(); err != nil {
		panic(err)
	}
	s := &Solver{cmd: cmd, in: in, out: bufio.NewReaderSize(out, 1<<16)}
	if dumpQueries != nil {
		s.log = &strings.Builder{}
	}
	s.Reset()
	return s
}

func (s *Solver) Close() { s.in.Close(); s.cmd.Wait() }

func (s *Solver) Reset() {
	if s.log != nil && s.log.Len() > 0 {
		dumpMu.Lock()
		dumpQueries.WriteString(s.log.String())
		dumpQueries.WriteString("; ---- end of path ----\n")
		dumpMu.Unlock()
		s.log.Reset()
	}
	s.buf.Reset()
	s.buf.WriteString("(reset)\n")
	s.ctx = &emitCtx{names: map[*Term]string{}, out: &s.buf}
	s.lastPushed = false
}

func (s *Solver) Assert(t *Term) {
	r := s.ctx.ref(t)
	fmt.Fprintf(&s.buf, "(assert %s)\n", r)
}

func (s *Solver) flush() {
	if s.log != nil {
		s.log.WriteString(s.buf.String())
	}
	io.WriteString(s.in, s.buf.String())
	s.buf.Reset()
}

// Check returns "sat"/"unsat"/"unknown..." for PC ∧ extra (extra may be nil).
func (s *Solver) Check(extra *Term) string {
	t0 := time.Now()
	if extra != nil {
		r := s.ctx.ref(extra) // definitions stay outside the push (harmless)
		fmt.Fprintf(&s.buf, "(push)\n(assert %s)\n(check-sat)\n", r)
	} else {
		s.buf.WriteString("(check-sat)\n")
	}
	s.flush()
	line, err := s.out.ReadString('\n')
	if err != nil {
		panic("solver died: " + err.Error())
	}
	res := strings.TrimSpace(line)
	if strings.HasPrefix(res, "(error") {
		res = "unknown:" + res
	} else if res != "sat" && res != "unsat" {
		res = "unknown:" + res
	}
	s.lastPushed = extra != nil
	s.nQuery++
	switch res {
	case "sat":
		s.nSat++
	case "unsat":
		s.nUnsat++
	default:
		s.nUnk++
	}
	d := time.Since(t0)
	s.tSolve += d
	if d > s.maxQ {
		s.maxQ = d
	}
	if s.log != nil {
		fmt.Fprintf(s.log, "; => %s (%.1f ms)\n", res, float64(d.Microseconds())/1000)
	}
	return res
}

// Model must be called right after a sat Check (before Pop).
func (s *Solver) Model() map[string]uint64 {
	m := map[string]uint64{}
	if len(s.ctx.vars) == 0 {
		return m
	}
	names := make([]string, len(s.ctx.vars))
	for i, v := range s.ctx.vars {
		names[i] = v.Name
	}
	io.WriteString(s.in, "(get-value ("+strings.Join(names, " ")+"))\n")
	depth := 0
	var sb strings.Builder
	for {
		line, err := s.out.ReadString('\n')
		if err != nil {
			panic(err)
		}
		sb.WriteString(line)
		depth += strings.Count(line, "(") - strings.Count(line, ")")
		if depth <= 0 {
			break
		}
	}
	txt := sb.String()
	if strings.HasPrefix(strings.TrimSpace(txt), "(error") {
		panic("solver get-value: " + txt)
	}
	// parse (name value) pairs; values are #x.., #b.., true, false or (_ bvN W)
	for _, v := range s.ctx.vars {
		i := strings.Index(txt, "("+v.Name+" ")
		if i < 0 {
			continue
		}
		rest := txt[i+len(v.Name)+2:]
		val := rest
		if strings.HasPrefix(rest, "(_ bv") {
			j := strings.Index(rest[5:], " ")
			u, _ := strconv.ParseUint(rest[5:5+j], 10, 64)
			m[v.Name] = u
			continue
		}
		j := strings.IndexAny(rest, ")\n")
		val = strings.TrimSpace(rest[:j])
		switch {
		case val == "true":
			m[v.Name] = 1
		case val == "false":
			m[v.Name] = 0
		case strings.HasPrefix(val, "#x"):
			u, _ := strconv.ParseUint(val[2:], 16, 64)
			m[v.Name] = u
		case strings.HasPrefix(val, "#b"):
			u, _ := strconv.ParseUint(val[2:], 2, 64)
			m[v.Name] = u
		}
	}
	return m
}

func (s *Solver) Pop() {
	if s.lastPushed {
		s.buf.WriteString("(pop)\n")
		s.lastPushed = false
	}
}
