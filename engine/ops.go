package main

import (
	"fmt"
	"go/token"
	"go/types"
	"unicode/utf8"

	"golang.org/x/tools/go/ssa"
)

func (e *Exec) unop(ins *ssa.UnOp, x Value) Value {
	switch ins.Op {
	case token.MUL:
		return e.load(x.(Ptr))
	case token.NOT:
		return Not(x.(*Term))
	case token.SUB:
		t := x.(*Term)
		if t.F {
			return FUn(OFNeg, t)
		}
		return Bin(OSub, Const(t.W, 0), t)
	case token.XOR:
		t := x.(*Term)
		return Bin(OBXor, t, Const(t.W, ^uint64(0)))
	}
	e.cut("unsupported-unop:" + ins.Op.String())
	return nil
}

func (e *Exec) equals(a, b Value) *Term {
	switch a := a.(type) {
	case *Term:
		if a.F {
			return FBin(OFEq, a, b.(*Term))
		}
		return Eq(a, b.(*Term))
	case Str:
		return strEq(a, b.(Str))
	case Ptr:
		return Bool(a.slot == b.(Ptr).slot)
	case Iface:
		bi := b.(Iface)
		if a.t == nil || bi.t == nil {
			return Bool(a.t == nil && bi.t == nil)
		}
		if !types.Identical(a.t, bi.t) {
			return tFalse
		}
		return e.equals(a.v, bi.v)
	case Struct:
		bs := b.(Struct)
		r := tTrue
		for i := range a {
			r = And(r, e.equals(a[i], bs[i]))
		}
		return r
	case Array:
		bs := b.(Array)
		r := tTrue
		for i := range a {
			r = And(r, e.equals(a[i], bs[i]))
		}
		return r
	case *Map:
		return Bool(a == b.(*Map))
	case Slice:
		// only comparison with nil is legal
		bs := b.(Slice)
		return Bool(!a.ok && !bs.ok)
	case NilFunc:
		_, ok := b.(NilFunc)
		return Bool(ok)
	case *ssa.Function, *Closure:
		_, ok := b.(NilFunc)
		return Bool(!ok && a == b)
	case Rtype:
		return Bool(types.Identical(a.t, b.(Rtype).t))
	case Native:
		return Bool(a == b)
	case nil:
		return Bool(b == nil)
	}
	panic(fmt.Sprintf("equals %T", a))
}

func strLess(a, b Str) *Term {
	// lexicographic a < b
	n := a.Len()
	if b.Len() < n {
		n = b.Len()
	}
	// res = exists i: prefix equal && a[i]<b[i]  || (all equal && len(a)<len(b))
	res := Bool(a.Len() < b.Len())
	for i := n - 1; i >= 0; i-- {
		res = Ite(Eq(a.At(i), b.At(i)), res, Bin(OUlt, a.At(i), b.At(i)))
	}
	return res
}

func (e *Exec) binop(op token.Token, t types.Type, x, y Value) Value {
	switch a := x.(type) {
	case *Term:
		b := y.(*Term)
		if a.F {
			f32 := false
			if bt, ok := t.Underlying().(*types.Basic); ok && bt.Kind() == types.Float32 {
				f32 = true
			}
			rnd := func(r *Term) *Term {
				if f32 {
					return FUn(OFRound32, r)
				}
				return r
			}
			switch op {
			case token.ADD:
				return rnd(FBin(OFAdd, a, b))
			case token.SUB:
				return rnd(FBin(OFSub, a, b))
			case token.MUL:
				return rnd(FBin(OFMul, a, b))
			case token.QUO:
				return rnd(FBin(OFDiv, a, b))
			case token.EQL:
				return FBin(OFEq, a, b)
			case token.NEQ:
				return Not(FBin(OFEq, a, b))
			case token.LSS:
				return FBin(OFLt, a, b)
			case token.LEQ:
				return FBin(OFLe, a, b)
			case token.GTR:
				return FBin(OFLt, b, a)
			case token.GEQ:
				return FBin(OFLe, b, a)
			}
			e.cut("unsupported-float-binop:" + op.String())
		}
		signed := isSigned(t)
		if a.W == 0 { // bool
			switch op {
			case token.EQL:
				return Eq(a, b)
			case token.NEQ:
				return Not(Eq(a, b))
			}
		}
		switch op {
		case token.ADD:
			return Bin(OAdd, a, b)
		case token.SUB:
			return Bin(OSub, a, b)
		case token.MUL:
			return Bin(OMul, a, b)
		case token.QUO, token.REM:
			if e.decide(Eq(b, Const(b.W, 0))) {
				e.gopanic("integer divide by zero")
			}
			o := map[bool]map[token.Token]Op{true: {token.QUO: OSDiv, token.REM: OSRem}, false: {token.QUO: OUDiv, token.REM: OURem}}[signed][op]
			return Bin(o, a, b)
		case token.AND:
			return Bin(OBAnd, a, b)
		case token.OR:
			return Bin(OBOr, a, b)
		case token.XOR:
			return Bin(OBXor, a, b)
		case token.AND_NOT:
			return Bin(OBAnd, a, Bin(OBXor, b, Const(b.W, ^uint64(0))))
		case token.SHL, token.SHR:
			if b.W != a.W {
				if b.W < a.W {
					b = Zext(b, a.W)
				} else {
					// clamp
					big := Bin(OUle, Const(b.W, uint64(a.W)), b)
					b = Ite(big, Const(a.W, uint64(a.W)), Trunc(b, a.W))
				}
			}
			if op == token.SHL {
				return Bin(OShl, a, b)
			}
			if signed {
				return Bin(OAShr, a, b)
			}
			return Bin(OLShr, a, b)
		case token.EQL:
			return Eq(a, b)
		case token.NEQ:
			return Not(Eq(a, b))
		case token.LSS:
			if signed {
				return Bin(OSlt, a, b)
			}
			return Bin(OUlt, a, b)
		case token.LEQ:
			if signed {
				return Bin(OSle, a, b)
			}
			return Bin(OUle, a, b)
		case token.GTR:
			if signed {
				return Bin(OSlt, b, a)
			}
			return Bin(OUlt, b, a)
		case token.GEQ:
			if signed {
				return Bin(OSle, b, a)
			}
			return Bin(OUle, b, a)
		}
	case Str:
		b := y.(Str)
		switch op {
		case token.ADD:
			return concat(a, b)
		case token.EQL:
			return strEq(a, b)
		case token.NEQ:
			return Not(strEq(a, b))
		case token.LSS:
			return strLess(a, b)
		case token.GTR:
			return strLess(b, a)
		case token.LEQ:
			return Not(strLess(b, a))
		case token.GEQ:
			return Not(strLess(a, b))
		}
	default:
		switch op {
		case token.EQL:
			return e.equals(x, y)
		case token.NEQ:
			return Not(e.equals(x, y))
		}
	}
	e.cut(fmt.Sprintf("unsupported-binop:%s on %T", op, x))
	return nil
}

func (e *Exec) conv(dst, src types.Type, x Value) Value {
	ud, us := dst.Underlying(), src.Underlying()
	switch ud := ud.(type) {
	case *types.Basic:
		switch {
		case ud.Info()&types.IsInteger != 0:
			switch v := x.(type) {
			case *Term:
				w := intWidth(ud)
				if v.F {
					if ud.Info()&types.IsUnsigned != 0 {
						if !v.IsConst() {
							e.cut("unsupported-symbolic:float->unsigned")
						}
						f := v.Float()
						if f >= 0 && f < 18446744073709551616.0 {
							return Const(w, uint64(f))
						}
						return Const(w, 1<<63)
					}
					return F2Int(v, w)
				}
				if v.W == w {
					return v
				}
				if v.W > w {
					return Trunc(v, w)
				}
				if isSigned(src) {
					return Sext(v, w)
				}
				return Zext(v, w)
			}
		case ud.Info()&types.IsFloat != 0:
			if v, ok := x.(*Term); ok {
				var r *Term
				if v.F {
					r = v
				} else {
					r = Int2F(v, isSigned(src))
				}
				if ud.Kind() == types.Float32 {
					r = FUn(OFRound32, r)
				}
				return r
			}
		case ud.Info()&types.IsString != 0:
			switch v := x.(type) {
			case Str:
				return v
			case *Term: // rune/int -> string
				if v.IsConst() {
					return Str{s: string(rune(sx(v.W, v.V)))}
				}
				return e.encodeRune(v)
			case Slice:
				if sl, ok := us.(*types.Slice); ok {
					eb := sl.Elem().Underlying().(*types.Basic)
					if eb.Kind() == types.Uint8 {
						b := make([]*Term, len(v.v))
						for i := range b {
							b[i] = v.v[i].(*Term)
						}
						return mkStr(b)
					}
					// []rune
					out := Str{}
					for i := range v.v {
						out = concat(out, e.encodeRune(v.v[i].(*Term)))
					}
					return out
				}
			}
		}
	case *types.Slice:
		if s, ok := x.(Str); ok {
			eb := ud.Elem().Underlying().(*types.Basic)
			if eb.Kind() == types.Uint8 {
				v := make([]Value, s.Len())
				for i := range v {
					v[i] = s.At(i)
				}
				return Slice{o: e.newObj("conv"), v: v, ok: true}
			}
			// []rune(string)
			var v []Value
			for i := 0; i < s.Len(); {
				r, w := e.decodeRune(s.Sub(i, s.Len()))
				v = append(v, r)
				i += w
			}
			return Slice{o: e.newObj("conv"), v: v, ok: true}
		}
		return x
	default:
		return x
	}
	e.cut(fmt.Sprintf("unsupported-conv: %v <- %v (%T)", dst, src, x))
	return nil
}

// decodeRune models utf8.DecodeRuneInString: forks on the width class only.
func (e *Exec) decodeRune(s Str) (*Term, int) {
	n := s.Len()
	if n == 0 {
		return Const(32, uint64(utf8.RuneError)), 0
	}
	if s.Concrete() {
		r, w := utf8.DecodeRuneInString(s.s)
		return Const(32, uint64(uint32(r))), w
	}
	rerr := Const(32, uint64(utf8.RuneError))
	b0 := s.At(0)
	c8 := func(v uint64) *Term { return Const(8, v) }
	in := func(b *Term, lo, hi uint64) *Term { return And(Bin(OUle, c8(lo), b), Bin(OUle, b, c8(hi))) }
	if e.decide(Bin(OUlt, b0, c8(0x80))) {
		return Zext(b0, 32), 1
	}
	cont := func(b *Term) *Term { return in(b, 0x80, 0xBF) }
	z := func(b *Term, m uint64) *Term { return Zext(Bin(OBAnd, b, c8(m)), 32) }
	shl := func(t *Term, k uint64) *Term { return Bin(OShl, t, Const(32, k)) }
	or := func(a, b *Term) *Term { return Bin(OBOr, a, b) }
	// 2-byte
	if n >= 2 {
		b1 := s.At(1)
		ok2 := And(in(b0, 0xC2, 0xDF), cont(b1))
		if e.decide(ok2) {
			return or(shl(z(b0, 0x1F), 6), z(b1, 0x3F)), 2
		}
	}
	if n >= 3 {
		b1, b2 := s.At(1), s.At(2)
		lo := Ite(Eq(b0, c8(0xE0)), c8(0xA0), c8(0x80))
		hi := Ite(Eq(b0, c8(0xED)), c8(0x9F), c8(0xBF))
		ok3 := And(in(b0, 0xE0, 0xEF), And(And(Bin(OUle, lo, b1), Bin(OUle, b1, hi)), cont(b2)))
		if e.decide(ok3) {
			return or(or(shl(z(b0, 0x0F), 12), shl(z(b1, 0x3F), 6)), z(b2, 0x3F)), 3
		}
	}
	if n >= 4 {
		b1, b2, b3 := s.At(1), s.At(2), s.At(3)
		lo := Ite(Eq(b0, c8(0xF0)), c8(0x90), c8(0x80))
		hi := Ite(Eq(b0, c8(0xF4)), c8(0x8F), c8(0xBF))
		ok4 := And(in(b0, 0xF0, 0xF4), And(And(Bin(OUle, lo, b1), Bin(OUle, b1, hi)), And(cont(b2), cont(b3))))
		if e.decide(ok4) {
			return or(or(shl(z(b0, 0x07), 18), shl(z(b1, 0x3F), 12)), or(shl(z(b2, 0x3F), 6), z(b3, 0x3F))), 4
		}
	}
	return rerr, 1
}

func (e *Exec) slice(ins *ssa.Slice, x, lo, hi, max Value) Value {
	get := func(v Value, def int) int {
		if v == nil {
			return def
		}
		t := v.(*Term)
		return int(int64(e.concretize(t, 64)))
	}
	switch x := x.(type) {
	case Str:
		l := get(lo, 0)
		h := get(hi, x.Len())
		if l < 0 || h < l || h > x.Len() {
			e.gopanic(fmt.Sprintf("slice bounds out of range [%d:%d] with length %d", l, h, x.Len()))
		}
		return x.Sub(l, h)
	case Slice:
		l := get(lo, 0)
		h := get(hi, len(x.v))
		m := get(max, cap(x.v))
		if l < 0 || h < l || m < h || m > cap(x.v) {
			e.gopanic(fmt.Sprintf("slice bounds out of range [%d:%d:%d] with capacity %d", l, h, m, cap(x.v)))
		}
		if !x.ok && l == 0 && h == 0 {
			return x
		}
		return Slice{o: x.o, v: x.v[l:h:m], ok: true}
	case Ptr: // *array
		if x.slot == nil {
			e.gopanic("slice of nil array pointer")
		}
		a := (*x.slot).(Array)
		l := get(lo, 0)
		h := get(hi, len(a))
		m := get(max, len(a))
		if l < 0 || h < l || m < h || m > len(a) {
			e.gopanic("slice bounds out of range (array)")
		}
		return Slice{o: x.o, v: []Value(a)[l:h:m], ok: true}
	}
	panic(fmt.Sprintf("slice %T", x))
}

// unhashable: a key holding (in an interface) a slice, map or func makes the runtime panic
func unhashable(v Value) bool {
	switch v := v.(type) {
	case Slice, *Map, *Closure, *ssa.Function, *BoundMethod, *NativeFn, NilFunc:
		return true
	case Iface:
		return v.t != nil && unhashable(v.v)
	case Struct:
		for _, f := range v {
			if unhashable(f) {
				return true
			}
		}
	case Array:
		for _, f := range v {
			if unhashable(f) {
				return true
			}
		}
	}
	return false
}

func (e *Exec) mapFind(m *Map, k Value) *mapEntry {
	if unhashable(k) {
		e.gopanic("runtime error: hash of unhashable type")
	}
	if m == nil {
		return nil
	}
	if hk, ok := hashKey(k); ok {
		if ent := m.m[hk]; ent != nil {
			return ent
		}
		for _, ent := range m.sym {
			if e.decide(e.equals(k, ent.k)) {
				return ent
			}
		}
		return nil
	}
	// symbolic key: fork over candidates
	for _, kk := range m.sortedKeys() {
		ent := m.m[kk]
		if e.decide(e.equals(k, ent.k)) {
			return ent
		}
	}
	for _, ent := range m.sym {
		if e.decide(e.equals(k, ent.k)) {
			return ent
		}
	}
	return nil
}

func (e *Exec) mapSet(m *Map, k, v Value) {
	if ent := e.mapFind(m, k); ent != nil {
		ent.v = copyVal(v)
		return
	}
	hk, ok := hashKey(k)
	if !ok {
		// symbolic key, decided to differ from every existing key on this path
		m.sym = append(m.sym, &mapEntry{k: copyVal(k), v: copyVal(v)})
		return
	}
	m.m[hk] = &mapEntry{k: copyVal(k), v: copyVal(v)}
}

func (e *Exec) lookup(ins *ssa.Lookup, x, k Value) Value {
	switch x := x.(type) {
	case Str:
		return e.strIndex(x, idx64(k.(*Term), ins.Index.Type()))
	case *Map:
		e.sharedMapAccess(x, false)
		ent := e.mapFind(x, k)
		var v Value
		if ent != nil {
			v = copyVal(ent.v)
		} else {
			v = zero(ins.X.Type().Underlying().(*types.Map).Elem())
		}
		if ins.CommaOk {
			return Tuple{v, Bool(ent != nil)}
		}
		return v
	}
	panic(fmt.Sprintf("lookup %T", x))
}

func (e *Exec) typeAssert(ins *ssa.TypeAssert, itf Iface) Value {
	var ok bool
	var v Value
	if it, isI := ins.AssertedType.Underlying().(*types.Interface); isI {
		ok = itf.t != nil && types.Implements(itf.t, it)
		v = itf
		if !ok {
			v = Iface{}
		}
	} else {
		ok = itf.t != nil && types.Identical(itf.t, ins.AssertedType)
		if ok {
			v = itf.v
		} else {
			v = zero(ins.AssertedType)
		}
	}
	if ins.CommaOk {
		return Tuple{v, Bool(ok)}
	}
	if !ok {
		e.gopanic(fmt.Sprintf("interface conversion: %v is not %v", itf.t, ins.AssertedType))
	}
	return v
}

type iter interface{ next(e *Exec) Value }

type mapIter struct {
	m    *Map
	keys []string
	i, j int
}

func (it *mapIter) next(e *Exec) Value {
	for it.i < len(it.keys) {
		ent := it.m.m[it.keys[it.i]]
		it.i++
		if ent != nil {
			return Tuple{tTrue, copyVal(ent.k), copyVal(ent.v)}
		}
	}
	if it.m != nil {
		for it.j < len(it.m.sym) {
			ent := it.m.sym[it.j]
			it.j++
			return Tuple{tTrue, copyVal(ent.k), copyVal(ent.v)}
		}
	}
	return Tuple{tFalse, nil, nil}
}

type strIter struct {
	s Str
	i int
}

func (it *strIter) next(e *Exec) Value {
	if it.i >= it.s.Len() {
		return Tuple{tFalse, Const(64, 0), Const(32, 0)}
	}
	r, w := e.decodeRune(it.s.Sub(it.i, it.s.Len()))
	k := it.i
	it.i += w
	return Tuple{tTrue, Const(64, uint64(k)), r}
}

func (e *Exec) rangeIter(x Value) Value {
	switch x := x.(type) {
	case *Map:
		if x == nil {
			return &mapIter{}
		}
		e.sharedMapAccess(x, false)
		return &mapIter{m: x, keys: x.sortedKeys()}
	case Str:
		return &strIter{s: x}
	}
	panic(fmt.Sprintf("rangeIter %T", x))
}

func (e *Exec) builtin(b *ssa.Builtin, args []Value) Value {
	switch b.Name() {
	case "len":
		switch x := args[0].(type) {
		case Str:
			return Const(64, uint64(x.Len()))
		case Slice:
			return Const(64, uint64(len(x.v)))
		case *Map:
			if x == nil {
				return Const(64, 0)
			}
			return Const(64, uint64(x.Len()))
		case Array:
			return Const(64, uint64(len(x)))
		case Ptr:
			return Const(64, uint64(len((*x.slot).(Array))))
		}
	case "cap":
		switch x := args[0].(type) {
		case Slice:
			return Const(64, uint64(cap(x.v)))
		case Array:
			return Const(64, uint64(len(x)))
		}
	case "append":
		s := args[0].(Slice)
		var add []Value
		switch y := args[1].(type) {
		case Slice:
			add = y.v
		case Str:
			for _, t := range y.Bytes() {
				add = append(add, t)
			}
		}
		if len(add) == 0 {
			return s
		}
		need := len(s.v) + len(add)
		if need <= cap(s.v) {
			e.sharedWrite(s.o)
			nv := s.v[:need]
			for i, a := range add {
				nv[len(s.v)+i] = copyVal(a)
			}
			return Slice{o: s.o, v: nv, ok: true}
		}
		var elem types.Type
		if sig, ok := b.Type().(*types.Signature); ok && sig.Params().Len() > 0 {
			if st, ok := sig.Params().At(0).Type().Underlying().(*types.Slice); ok {
				elem = st.Elem()
			}
		}
		nc := goGrowCap(cap(s.v), need, elem)
		if nc < need {
			nc = need
		}
		nv := make([]Value, need, nc)
		copy(nv, s.v)
		for i, a := range add {
			nv[len(s.v)+i] = copyVal(a)
		}
		return Slice{o: e.newObj("append"), v: nv, ok: true}
	case "copy":
		d := args[0].(Slice)
		n := 0
		if len(d.v) > 0 {
			e.sharedWrite(d.o)
		}
		switch y := args[1].(type) {
		case Slice:
			n = copy(d.v, y.v)
		case Str:
			bs := y.Bytes()
			for n < len(d.v) && n < len(bs) {
				d.v[n] = bs[n]
				n++
			}
		}
		return Const(64, uint64(n))
	case "delete":
		m := args[0].(*Map)
		if m == nil {
			return nil
		}
		e.sharedMapAccess(m, true)
		if ent := e.mapFind(m, args[1]); ent != nil {
			if hk, ok := hashKey(ent.k); ok {
				delete(m.m, hk)
			} else {
				for i, x := range m.sym {
					if x == ent {
						m.sym = append(m.sym[:i:i], m.sym[i+1:]...)
						break
					}
				}
			}
		}
		return nil
	case "panic":
		panic(goPanic{msg: "panic: " + e.describe(args[0]), val: args[0]})
	case "print", "println":
		return nil
	case "min", "max":
		signed := true
		if sig, ok := b.Type().(*types.Signature); ok && sig.Params().Len() > 0 {
			signed = isSigned(sig.Params().At(0).Type())
		}
		r := args[0].(*Term)
		for _, x := range args[1:] {
			y := x.(*Term)
			if r.F {
				e.cut("unsupported-builtin:min/max on floats")
			}
			var lt *Term
			if signed {
				lt = Bin(OSlt, r, y)
			} else {
				lt = Bin(OUlt, r, y)
			}
			if b.Name() == "min" {
				r = Ite(lt, r, y)
			} else {
				r = Ite(lt, y, r)
			}
		}
		return r
	case "recover":
		return Iface{}
	case "ssa:wrapnilchk":
		p := args[0].(Ptr)
		if p.slot == nil {
			e.gopanic("value method called using nil pointer")
		}
		return p
	}
	e.cut("unsupported-builtin:" + b.Name())
	return nil
}
