package main

import (
	"fmt"
	"go/constant"
	"go/token"
	"go/types"
	"strings"
	"sync"

	"golang.org/x/tools/go/ssa"
)

type goPanic struct {
	msg string
	val Value
}
type pathEnd struct {
	kind string // "assume", "cut", "fail"
	msg  string
}

type fnInfo struct {
	idx      map[ssa.Value]int
	n        int
	hasDefer bool
}

var fnInfos sync.Map

func getInfo(fn *ssa.Function) *fnInfo {
	if v, ok := fnInfos.Load(fn); ok {
		return v.(*fnInfo)
	}
	in := &fnInfo{idx: map[ssa.Value]int{}}
	add := func(v ssa.Value) { in.idx[v] = in.n; in.n++ }
	for _, p := range fn.Params {
		add(p)
	}
	for _, p := range fn.FreeVars {
		add(p)
	}
	for _, b := range fn.Blocks {
		for _, ins := range b.Instrs {
			if v, ok := ins.(ssa.Value); ok {
				add(v)
			}
			if _, ok := ins.(*ssa.Defer); ok {
				in.hasDefer = true
			}
		}
	}
	fnInfos.Store(fn, in)
	return in
}

type deferred struct {
	fn   Value
	args []Value
}

type frame struct {
	e           *Exec
	fn          *ssa.Function
	info        *fnInfo
	env         []Value
	block, prev *ssa.BasicBlock
	defers      []deferred
	result      Value
}

type obsEntry struct {
	tag string
	val Value
}

type Exec struct {
	prog         *ssa.Program
	pkg          *ssa.Package
	globals      map[*ssa.Global]*Value
	solver       *Solver
	prefix       []Dec
	pos          int
	trace        []Dec
	enqueue      func(prefix []Dec, model map[string]uint64)
	nvars        int
	steps        int64
	envFixed     bool // verifEnvFixed: environment stubs return one fixed legal value
	depth        int
	epoch        int
	inputs       []*Term
	intr         map[*ssa.Function]intrinsic
	funcsHit     map[*ssa.Function]int
	model        map[string]uint64
	res          *Result
	failModel    map[string]uint64
	failPos      string
	observed     []string
	obs          []obsEntry
	sharedWrites map[string]int
	envAccess    map[string]int
	modelsUsed   map[string]int
	cover        map[string]int
	params       map[string]int
	known        map[string]bool
	obligations  int
	nontrivial   int
	discharged   int
	symBits      int
	choices      int
	envPool      [][][]Value
	decided      map[*Term]bool // conditions already decided on this path
	held         int // mutexes currently held
	lockEvents   int
	lockedWrites map[string]int
	mapWritten   map[*Map]bool
	mapUnlocked  map[*Map]map[string]int
	harnessFn    map[*ssa.Function]bool
	onceDone     map[*Value]bool
	pools        map[*Value][]Value
	syncMaps     map[*Value]*Map // sync.Map (model): contents per sync.Map value
	unlockedCache int
	curInstr     ssa.Instruction
	stack        []*ssa.Function
	harnessDepth int // >0 while executing code of the harness files (objects allocated there belong to the caller)
}

// Dec is one recorded decision: a branch (k='b'), a concretised value (k='v')
// or an excluded value (k='x').
type Dec struct {
	k byte
	b bool
	v uint64
}

var initWhitelist = map[string]bool{"io": true, "bytes": true, "strings": true, "unicode/utf8": true,
	"strconv": true, "sort": true, "net/url": true, "math/bits": true, "io/fs": true}

type intrinsic func(e *Exec, args []Value) Value

var stepBudget int64 = 20_000_000

func (e *Exec) cut(msg string) {
	if len(e.stack) > 0 {
		msg += " @" + e.stack[len(e.stack)-1].String()
		if len(e.stack) > 1 {
			msg += " <- " + e.stack[len(e.stack)-2].String()
		}
	}
	panic(pathEnd{"cut", msg})
}
func (e *Exec) gopanic(msg string) { panic(goPanic{msg: msg}) }

func (e *Exec) freshVar(w uint8, hint string) *Term {
	t := mk(Term{Op: OVar, W: w, Name: fmt.Sprintf("v%d_%s", e.nvars, hint)})
	e.nvars++
	e.inputs = append(e.inputs, t)
	if hint != "c" {
		if w == 0 {
			e.symBits++
		} else {
			e.symBits += int(w)
		}
	}
	return t
}

// decide is the single forking primitive. Invariant: e.model satisfies the
// current path condition (unconstrained variables read as 0).
func (e *Exec) decide(c *Term) bool {
	if c.IsConst() {
		return c.V != 0
	}
	if e.pos < len(e.prefix) {
		d := e.prefix[e.pos]
		if d.k != 'b' {
			panic("replay divergence: expected branch decision")
		}
		e.pos++
		e.trace = append(e.trace, d)
		if c.Op == ONot {
			e.decided[c.A] = !d.b
		} else {
			e.decided[c] = d.b
		}
		if d.b {
			e.solver.Assert(c)
		} else {
			e.solver.Assert(Not(c))
		}
		return d.b
	}
	key, neg := c, false
	if c.Op == ONot {
		key, neg = c.A, true
	}
	if v, ok := e.decided[key]; ok {
		// the same condition was decided earlier on this path: implied, no query
		take := v != neg
		e.pos++
		e.trace = append(e.trace, Dec{k: 'b', b: take})
		return take
	}
	e.pos++
	take := c.Eval(e.model) == 1
	other := c
	if take {
		other = Not(c)
	}
	r := e.solver.Check(other)
	if r == "sat" {
		m := e.solver.Model()
		e.solver.Pop()
		sib := append(append([]Dec{}, e.trace...), Dec{k: 'b', b: !take})
		e.enqueue(sib, m)
	} else {
		e.solver.Pop()
		if r != "unsat" {
			e.cut("solver:" + r)
		}
	}
	e.trace = append(e.trace, Dec{k: 'b', b: take})
	e.decided[key] = take != neg
	if take {
		e.solver.Assert(c)
	} else {
		e.solver.Assert(Not(c))
	}
	return take
}

// assume restricts the path to c without forking: inputs violating an
// assumption are outside the claim, so no sibling path is created for them.
func (e *Exec) assume(c *Term) {
	if c.IsConst() {
		if c.V == 0 {
			panic(pathEnd{"assume", "false"})
		}
		return
	}
	key, neg := c, false
	if c.Op == ONot {
		key, neg = c.A, true
	}
	if v, ok := e.decided[key]; ok {
		if v == neg {
			panic(pathEnd{"assume", "false"})
		}
		return
	}
	if e.pos < len(e.prefix) {
		// replaying a prefix: the carried model satisfies the whole prefix path
		// condition including this assumption
		e.solver.Assert(c)
		e.decided[key] = !neg
		return
	}
	if c.Eval(e.model) != 1 {
		r := e.solver.Check(c)
		if r == "sat" {
			e.model = e.solver.Model()
			e.solver.Pop()
		} else {
			e.solver.Pop()
			if r != "unsat" {
				e.cut("solver:" + r)
			}
			panic(pathEnd{"assume", "false"})
		}
	}
	e.solver.Assert(c)
	e.decided[key] = !neg
}

// choose implements verifChoice(n): a fresh, otherwise unconstrained input in
// [0,n). Every value is feasible, so siblings are created without a query.
func (e *Exec) choose(n uint64) uint64 {
	v := e.freshVar(64, "c")
	e.choices++
	if e.pos < len(e.prefix) {
		d := e.prefix[e.pos]
		if d.k != 'c' {
			panic("replay divergence: expected choice entry")
		}
		e.pos++
		e.trace = append(e.trace, d)
		e.solver.Assert(Eq(v, Const(64, d.v)))
		return d.v
	}
	e.pos++
	for k := uint64(1); k < n; k++ {
		m := make(map[string]uint64, len(e.model)+1)
		for a, b := range e.model {
			m[a] = b
		}
		m[v.Name] = k
		sib := append(append([]Dec{}, e.trace...), Dec{k: 'c', v: k})
		e.enqueue(sib, m)
	}
	e.model[v.Name] = 0
	e.trace = append(e.trace, Dec{k: 'c', v: 0})
	e.solver.Assert(Eq(v, Const(64, 0)))
	return 0
}

// concretize a symbolic int by enumerating feasible values (small domains).
// Trace protocol per call: zero or more 'x' (excluded value) entries, then one 'v'.
func (e *Exec) concretize(t *Term, limit int) uint64 {
	if t.IsConst() {
		return t.V
	}
	n := 0
	for e.pos < len(e.prefix) {
		d := e.prefix[e.pos]
		e.pos++
		e.trace = append(e.trace, d)
		switch d.k {
		case 'x':
			e.solver.Assert(Not(Eq(t, Const(t.W, d.v))))
			n++
		case 'v':
			e.solver.Assert(Eq(t, Const(t.W, d.v)))
			return d.v
		default:
			panic("replay divergence: expected concretisation entry")
		}
	}
	if n >= limit {
		e.cut("concretisation-overflow")
	}
	e.pos++
	v := t.Eval(e.model)
	ne := Not(Eq(t, Const(t.W, v)))
	r := e.solver.Check(ne)
	if r == "sat" {
		m := e.solver.Model()
		e.solver.Pop()
		sib := append(append([]Dec{}, e.trace...), Dec{k: 'x', v: v})
		e.enqueue(sib, m)
	} else {
		e.solver.Pop()
		if r != "unsat" {
			e.cut("solver:" + r)
		}
	}
	e.trace = append(e.trace, Dec{k: 'v', v: v})
	e.solver.Assert(Eq(t, Const(t.W, v)))
	return v
}

func (e *Exec) constValue(c *ssa.Const) Value {
	t := c.Type()
	if c.Value == nil {
		return zero(t)
	}
	switch u := t.Underlying().(type) {
	case *types.Basic:
		switch {
		case u.Info()&types.IsBoolean != 0:
			return Bool(constant.BoolVal(c.Value))
		case u.Info()&types.IsString != 0:
			return Str{s: constant.StringVal(c.Value)}
		case u.Info()&types.IsInteger != 0:
			if u.Info()&types.IsUnsigned != 0 {
				return Const(intWidth(u), c.Uint64())
			}
			return Const(intWidth(u), uint64(c.Int64()))
		case u.Info()&types.IsFloat != 0:
			f := c.Float64()
			if u.Kind() == types.Float32 {
				f = float64(float32(f))
			}
			return FConst(f)
		}
	}
	panic(fmt.Sprintf("constValue: %v : %v", c, t))
}

func (fr *frame) get(v ssa.Value) Value {
	switch v := v.(type) {
	case nil:
		return nil
	case *ssa.Const:
		return fr.e.constValue(v)
	case *ssa.Function, *ssa.Builtin:
		return v
	case *ssa.Global:
		return fr.e.globalPtr(v)
	}
	i, ok := fr.info.idx[v]
	if !ok {
		panic(fmt.Sprintf("get: no slot for %s in %s", v.Name(), fr.fn))
	}
	return fr.env[i]
}
func (fr *frame) set(v ssa.Value, x Value) { fr.env[fr.info.idx[v]] = x }

var globalObj = &Obj{epoch: 0, site: "global"}
var harnessGlobalObj = &Obj{epoch: 0, site: "harness-global", harness: true}

func isHarnessFile(prog *ssa.Program, pos token.Pos) bool {
	if !pos.IsValid() {
		return false
	}
	f := prog.Fset.Position(pos).Filename
	return strings.Contains(f, "zz_verif_")
}

func (e *Exec) globalPtr(g *ssa.Global) Ptr {
	s, ok := e.globals[g]
	if !ok {
		s = new(Value)
		*s = zero(g.Type().(*types.Pointer).Elem())
		e.globals[g] = s
	}
	if isHarnessFile(e.prog, g.Pos()) {
		return Ptr{o: harnessGlobalObj, slot: s}
	}
	return Ptr{o: globalObj, slot: s}
}

func (e *Exec) curPos() string {
	if e.curInstr == nil {
		return "?"
	}
	pos := e.prog.Fset.Position(e.curInstr.Pos())
	fn := e.curInstr.Parent().String()
	return fmt.Sprintf("%s:%d in %s", pos.Filename, pos.Line, fn)
}

func (e *Exec) newObj(site string) *Obj {
	o := &Obj{epoch: e.epoch, site: site}
	if n := len(e.stack); n > 0 {
		o.harness = e.inHarness(e.stack[n-1])
	}
	return o
}

func (e *Exec) inHarness(fn *ssa.Function) bool {
	if v, ok := e.harnessFn[fn]; ok {
		return v
	}
	f := fn
	for f.Parent() != nil {
		f = f.Parent()
	}
	v := isHarnessFile(e.prog, f.Pos())
	e.harnessFn[fn] = v
	return v
}

// sharedWrite records a write to memory that existed before the last
// verifEpoch() and is not the caller's (harness-allocated) object.
func (e *Exec) sharedWrite(o *Obj) {
	if e.epoch < 2 || o == nil || o.harness || o.epoch >= e.epoch {
		return
	}
	site := e.curPos()
	if e.held > 0 {
		e.lockedWrites[site]++
		return
	}
	e.sharedWrites[site]++
}

// sharedMapAccess records accesses to shared maps for the lockset check.
func (e *Exec) sharedMapAccess(m *Map, write bool) {
	if m == nil || e.epoch < 2 || m.o == nil || m.o.harness || m.o.epoch >= e.epoch {
		return
	}
	if write {
		e.mapWritten[m] = true
		if e.held == 0 {
			e.sharedWrites[e.curPos()]++
		} else {
			e.lockedWrites[e.curPos()]++
		}
	}
	if e.held == 0 {
		if e.mapUnlocked[m] == nil {
			e.mapUnlocked[m] = map[string]int{}
		}
		e.mapUnlocked[m][e.curPos()]++
	}
}

// unlockedAccessesToWrittenMaps: Eraser-style lockset check for maps - a shared
// map that is written after the epoch must never be accessed without a lock.
func (e *Exec) unlockedAccessesToWrittenMaps() map[string]int {
	out := map[string]int{}
	for m := range e.mapWritten {
		for site, n := range e.mapUnlocked[m] {
			out[site] += n
		}
	}
	return out
}

func (e *Exec) load(p Ptr) Value {
	if p.slot == nil {
		e.gopanic("nil pointer dereference")
	}
	return copyVal(*p.slot)
}
func (e *Exec) store(p Ptr, v Value) {
	if p.slot == nil {
		e.gopanic("nil pointer dereference (store)")
	}
	e.sharedWrite(p.o)
	*p.slot = copyVal(v)
}

func (e *Exec) call(fn Value, args []Value, pos token.Pos) Value {
	switch f := fn.(type) {
	case *ssa.Function:
		return e.callFn(f, args, nil)
	case *Closure:
		return e.callFn(f.fn, args, f.env)
	case *ssa.Builtin:
		return e.builtin(f, args)
	case *NativeFn:
		return f.f(e, args)
	case *BoundMethod:
		return e.callFn(f.fn, append([]Value{f.recv}, args...), nil)
	case NilFunc:
		e.gopanic("call of nil func")
	}
	panic(fmt.Sprintf("call: %T", fn))
}

func (e *Exec) callFn(fn *ssa.Function, args []Value, env []Value) Value {
	if in, ok := e.intr[fn]; ok {
		if in != nil {
			return in(e, args)
		}
	} else {
		name := fn.String()
		in := intrinsics[name]
		e.intr[fn] = in
		if in != nil {
			return in(e, args)
		}
	}
	if fn.Synthetic == "package initializer" && fn.Pkg != e.pkg && !initWhitelist[fn.Pkg.Pkg.Path()] {
		return nil
	}
	if r := fn.Signature.Recv(); r != nil {
		rt := r.Type()
		if p, ok := rt.(*types.Pointer); ok {
			rt = p.Elem()
		}
		if isTimeTime(rt) {
			return e.nativeTimeMethod(fn, args)
		}
	}
	if fn.Blocks == nil {
		e.cut("unsupported-external:" + fn.String())
	}
	e.funcsHit[fn]++
	e.depth++
	if e.depth > 40000 {
		e.failPos = e.curPos()
		panic(pathEnd{"fail", "budget:call depth exceeds 40000 frames (runaway recursion)"})
	}
	e.stack = append(e.stack, fn)
	defer func() { e.depth--; e.stack = e.stack[:len(e.stack)-1] }()
	info := getInfo(fn)
	fr := &frame{e: e, fn: fn, info: info, env: e.getEnv(info.n)}
	defer e.putEnv(fr.env)
	for i, p := range fn.Params {
		fr.env[info.idx[p]] = args[i]
	}
	for i, p := range fn.FreeVars {
		fr.env[info.idx[p]] = env[i]
	}
	fr.block = fn.Blocks[0]
	if !info.hasDefer {
		for fr.block != nil {
			fr.runBlock()
		}
		return fr.result
	}
	func() {
		defer func() {
			if r := recover(); r != nil {
				if _, ok := r.(goPanic); ok && len(fr.defers) > 0 {
					ds := fr.defers
					fr.defers = nil
					for i := len(ds) - 1; i >= 0; i-- {
						e.call(ds[i].fn, ds[i].args, 0)
					}
				}
				panic(r)
			}
		}()
		for fr.block != nil {
			fr.runBlock()
		}
	}()
	return fr.result
}

// frame environments are recycled per Exec (they never escape a call:
// Alloc'd cells and closure bindings are separate objects).
func (e *Exec) getEnv(n int) []Value {
	if n < len(e.envPool) {
		if l := e.envPool[n]; len(l) > 0 {
			s := l[len(l)-1]
			e.envPool[n] = l[:len(l)-1]
			return s
		}
	}
	return make([]Value, n)
}

func (e *Exec) putEnv(s []Value) {
	n := len(s)
	if n >= 512 {
		return
	}
	for i := range s {
		s[i] = nil
	}
	if e.envPool == nil {
		e.envPool = make([][][]Value, 512)
	}
	e.envPool[n] = append(e.envPool[n], s)
}

func (fr *frame) runBlock() {
	e := fr.e
	b := fr.block
	// phis (parallel)
	n := 0
	for _, ins := range b.Instrs {
		if _, ok := ins.(*ssa.Phi); ok {
			n++
		} else {
			break
		}
	}
	if n > 0 {
		pi := 0
		for i, p := range b.Preds {
			if p == fr.prev {
				pi = i
				break
			}
		}
		tmp := make([]Value, n)
		for i := 0; i < n; i++ {
			tmp[i] = fr.get(b.Instrs[i].(*ssa.Phi).Edges[pi])
		}
		for i := 0; i < n; i++ {
			fr.set(b.Instrs[i].(*ssa.Phi), tmp[i])
		}
	}
	for _, ins := range b.Instrs[n:] {
		e.steps++
		e.curInstr = ins
		if e.steps > stepBudget {
			e.failPos = e.curPos()
			panic(pathEnd{"fail", "budget:instruction budget exhausted (candidate non-termination)"})
		}
		switch ins := ins.(type) {
		case *ssa.DebugRef:
		case *ssa.UnOp:
			fr.set(ins, e.unop(ins, fr.get(ins.X)))
		case *ssa.BinOp:
			fr.set(ins, e.binop(ins.Op, ins.X.Type(), fr.get(ins.X), fr.get(ins.Y)))
		case *ssa.Call:
			fn, args := fr.prepareCall(&ins.Call)
			fr.set(ins, e.call(fn, args, ins.Pos()))
		case *ssa.ChangeInterface:
			fr.set(ins, fr.get(ins.X))
		case *ssa.ChangeType:
			fr.set(ins, fr.get(ins.X))
		case *ssa.Convert:
			fr.set(ins, e.conv(ins.Type(), ins.X.Type(), fr.get(ins.X)))
		case *ssa.MakeInterface:
			fr.set(ins, Iface{t: ins.X.Type(), v: fr.get(ins.X)})
		case *ssa.Extract:
			fr.set(ins, fr.get(ins.Tuple).(Tuple)[ins.Index])
		case *ssa.Slice:
			fr.set(ins, e.slice(ins, fr.get(ins.X), fr.get(ins.Low), fr.get(ins.High), fr.get(ins.Max)))
		case *ssa.Return:
			switch len(ins.Results) {
			case 0:
			case 1:
				fr.result = fr.get(ins.Results[0])
			default:
				res := make(Tuple, len(ins.Results))
				for i, r := range ins.Results {
					res[i] = fr.get(r)
				}
				fr.result = res
			}
			fr.block = nil
			return
		case *ssa.RunDefers:
			ds := fr.defers
			fr.defers = nil
			for i := len(ds) - 1; i >= 0; i-- {
				e.call(ds[i].fn, ds[i].args, 0)
			}
		case *ssa.Panic:
			v := fr.get(ins.X)
			panic(goPanic{msg: "explicit panic: " + e.describe(v), val: v})
		case *ssa.Store:
			e.store(fr.get(ins.Addr).(Ptr), fr.get(ins.Val))
		case *ssa.If:
			c := fr.get(ins.Cond).(*Term)
			succ := 1
			if e.decide(c) {
				succ = 0
			}
			fr.prev, fr.block = b, b.Succs[succ]
			return
		case *ssa.Jump:
			fr.prev, fr.block = b, b.Succs[0]
			return
		case *ssa.Defer:
			fn, args := fr.prepareCall(&ins.Call)
			fr.defers = append(fr.defers, deferred{fn, args})
		case *ssa.Alloc:
			s := new(Value)
			*s = zero(ins.Type().(*types.Pointer).Elem())
			fr.set(ins, Ptr{o: e.newObj(ins.Comment), slot: s})
		case *ssa.MakeSlice:
			ln := int(e.concretize(fr.get(ins.Len).(*Term), 64))
			cp := int(e.concretize(fr.get(ins.Cap).(*Term), 64))
			if ln < 0 || cp < ln || cp > 1<<24 {
				e.gopanic("makeslice: len out of range")
			}
			et := ins.Type().Underlying().(*types.Slice).Elem()
			v := make([]Value, cp)
			for i := range v {
				v[i] = zero(et)
			}
			fr.set(ins, Slice{o: e.newObj("makeslice"), v: v[:ln], ok: true})
		case *ssa.MakeMap:
			fr.set(ins, &Map{o: e.newObj("makemap"), keyT: ins.Type().Underlying().(*types.Map).Key(), m: map[string]*mapEntry{}})
		case *ssa.MakeClosure:
			env := make([]Value, len(ins.Bindings))
			for i, b := range ins.Bindings {
				env[i] = fr.get(b)
			}
			fr.set(ins, &Closure{ins.Fn.(*ssa.Function), env})
		case *ssa.FieldAddr:
			p := fr.get(ins.X).(Ptr)
			if p.slot == nil {
				e.gopanic("nil pointer dereference (field)")
			}
			fr.set(ins, Ptr{o: p.o, slot: &(*p.slot).(Struct)[ins.Field]})
		case *ssa.Field:
			fr.set(ins, copyVal(fr.get(ins.X).(Struct)[ins.Field]))
		case *ssa.IndexAddr:
			x := fr.get(ins.X)
			idx := idx64(fr.get(ins.Index).(*Term), ins.Index.Type())
			switch x := x.(type) {
			case Slice:
				i := e.index(idx, len(x.v))
				fr.set(ins, Ptr{o: x.o, slot: &x.v[i]})
			case Ptr:
				if x.slot == nil {
					e.gopanic("nil pointer dereference (index)")
				}
				a := (*x.slot).(Array)
				i := e.index(idx, len(a))
				fr.set(ins, Ptr{o: x.o, slot: &a[i]})
			default:
				panic(fmt.Sprintf("IndexAddr %T", x))
			}
		case *ssa.Index:
			x := fr.get(ins.X)
			idx := idx64(fr.get(ins.Index).(*Term), ins.Index.Type())
			switch x := x.(type) {
			case Array:
				fr.set(ins, copyVal(x[e.index(idx, len(x))]))
			case Str:
				fr.set(ins, e.strIndex(x, idx))
			default:
				panic(fmt.Sprintf("Index %T", x))
			}
		case *ssa.Lookup:
			fr.set(ins, e.lookup(ins, fr.get(ins.X), fr.get(ins.Index)))
		case *ssa.MapUpdate:
			m := fr.get(ins.Map).(*Map)
			if m == nil {
				e.gopanic("assignment to entry in nil map")
			}
			e.sharedMapAccess(m, true)
			e.mapSet(m, fr.get(ins.Key), fr.get(ins.Value))
		case *ssa.TypeAssert:
			fr.set(ins, e.typeAssert(ins, fr.get(ins.X).(Iface)))
		case *ssa.Range:
			fr.set(ins, e.rangeIter(fr.get(ins.X)))
		case *ssa.Next:
			fr.set(ins, fr.get(ins.Iter).(iter).next(e))
		default:
			e.cut(fmt.Sprintf("unsupported-instr:%T", ins))
		}
	}
}

// idx64 widens an index operand to 64 bits according to the signedness of its
// static type (a byte used as an index is unsigned: first[s[0]]).
func idx64(idx *Term, t types.Type) *Term {
	if idx.W == 64 {
		return idx
	}
	if isSigned(t) {
		return Sext(idx, 64)
	}
	return Zext(idx, 64)
}

func (e *Exec) index(idx *Term, n int) int {
	if !idx.IsConst() {
		// in-range?
		inr := Bin(OUlt, idx, Const(idx.W, uint64(n)))
		if !e.decide(inr) {
			e.gopanic("index out of range (symbolic)")
		}
		return int(e.concretize(idx, 64))
	}
	i := sx(idx.W, idx.V)
	if i < 0 || i >= int64(n) {
		e.gopanic(fmt.Sprintf("index out of range [%d] with length %d", i, n))
	}
	return int(i)
}

func (e *Exec) strIndex(s Str, idx *Term) *Term {
	if idx.IsConst() {
		i := sx(idx.W, idx.V)
		if i < 0 || i >= int64(s.Len()) {
			e.gopanic(fmt.Sprintf("string index out of range [%d] with length %d", i, s.Len()))
		}
		return s.At(int(i))
	}
	inr := Bin(OUlt, idx, Const(idx.W, uint64(s.Len())))
	if !e.decide(inr) {
		e.gopanic("string index out of range (symbolic)")
	}
	r := s.At(s.Len() - 1)
	for i := s.Len() - 2; i >= 0; i-- {
		r = Ite(Eq(idx, Const(idx.W, uint64(i))), s.At(i), r)
	}
	return r
}

func (fr *frame) prepareCall(c *ssa.CallCommon) (Value, []Value) {
	e := fr.e
	v := fr.get(c.Value)
	var args []Value
	var fn Value
	if c.Method == nil {
		fn = v
	} else {
		recv := v.(Iface)
		if recv.t == nil {
			e.gopanic("method call on nil interface: " + c.Method.Name())
		}
		if m := e.modelMethod(recv, c.Method); m != nil {
			fn = m
			args = append(args, recv.v)
		} else {
			f := e.prog.LookupMethod(recv.t, c.Method.Pkg(), c.Method.Name())
			if f == nil {
				panic(fmt.Sprintf("no method %s on %v", c.Method.Name(), recv.t))
			}
			fn = f
			args = append(args, recv.v)
		}
	}
	for _, a := range c.Args {
		args = append(args, fr.get(a))
	}
	return fn, args
}

// methods invoked through interfaces on model values
func (e *Exec) modelMethod(recv Iface, m *types.Func) Value {
	if rt, ok := recv.v.(Rtype); ok {
		name := m.Name()
		return &NativeFn{func(e *Exec, a []Value) Value { return e.rtypeMethod(rt, name, a[1:]) }}
	}
	return nil
}

type NativeFn struct{ f intrinsic }

func (e *Exec) describe(v Value) string {
	switch v := v.(type) {
	case Iface:
		if v.t == nil {
			return "nil"
		}
		return v.t.String() + ":" + e.describe(v.v)
	case Str:
		return v.String()
	case *Term:
		if v.IsConst() {
			return fmt.Sprint(v.V)
		}
		return "sym"
	}
	return fmt.Sprintf("%T", v)
}
