package main

import (
	"fmt"
	"go/types"
	"sort"
	"strings"
	"time"

	"golang.org/x/tools/go/ssa"
)

type Value interface{}

// Scalars: *Term (bool, ints, floats: Float64 sort; float32 values are kept rounded).

// Str: concrete (b == nil) or per-byte terms with concrete length.
type Str struct {
	s string
	b []*Term
}

func mkStr(b []*Term) Str {
	for _, t := range b {
		if !t.IsConst() {
			return Str{b: b}
		}
	}
	bs := make([]byte, len(b))
	for i, t := range b {
		bs[i] = byte(t.V)
	}
	return Str{s: string(bs)}
}
func (s Str) Len() int {
	if s.b != nil {
		return len(s.b)
	}
	return len(s.s)
}
func (s Str) Concrete() bool { return s.b == nil }
func (s Str) At(i int) *Term {
	if s.b != nil {
		return s.b[i]
	}
	return Const(8, uint64(s.s[i]))
}
func (s Str) Bytes() []*Term {
	if s.b != nil {
		return s.b
	}
	r := make([]*Term, len(s.s))
	for i := range r {
		r[i] = Const(8, uint64(s.s[i]))
	}
	return r
}
func (s Str) Sub(i, j int) Str {
	if s.b != nil {
		return mkStr(s.b[i:j])
	}
	return Str{s: s.s[i:j]}
}
func concat(a, b Str) Str {
	if a.Concrete() && b.Concrete() {
		return Str{s: a.s + b.s}
	}
	return mkStr(append(append([]*Term{}, a.Bytes()...), b.Bytes()...))
}
func strEq(a, b Str) *Term {
	if a.Len() != b.Len() {
		return tFalse
	}
	if a.Concrete() && b.Concrete() {
		return Bool(a.s == b.s)
	}
	r := tTrue
	for i := 0; i < a.Len(); i++ {
		r = And(r, Eq(a.At(i), b.At(i)))
		if r.IsFalse() {
			return r
		}
	}
	return r
}
func (s Str) String() string {
	if s.b == nil {
		return fmt.Sprintf("%q", s.s)
	}
	var sb strings.Builder
	sb.WriteString("sym\"")
	for _, t := range s.b {
		if t.IsConst() {
			sb.WriteString(fmt.Sprintf("%c", rune(t.V)))
		} else {
			sb.WriteString("?")
		}
	}
	sb.WriteString("\"")
	return sb.String()
}

type Obj struct {
	epoch   int
	site    string
	harness bool // allocated by harness code: the caller's object, not shared engine state
}

type Ptr struct {
	o    *Obj
	slot *Value
}

func (p Ptr) IsNil() bool { return p.slot == nil }

type Struct []Value
type Array []Value
type Tuple []Value

type Slice struct {
	o *Obj
	v []Value // Go slice semantics for len/cap
	ok bool   // false => nil slice
}

type Iface struct {
	t types.Type // nil => nil interface
	v Value
}

type Closure struct {
	fn  *ssa.Function
	env []Value
}

type NilFunc struct{}

type mapEntry struct {
	k, v Value
}
type Map struct {
	o    *Obj
	keyT types.Type
	m    map[string]*mapEntry
	sym  []*mapEntry // entries whose key is symbolic (known to differ from every other key on this path)
}

func (m *Map) Len() int { return len(m.m) + len(m.sym) }

type Rtype struct{ t types.Type }

// native opaque handle
type Native struct{ v interface{} }

func zero(t types.Type) Value {
	if isReflectValue(t) {
		return RV{}
	}
	if isTimeTime(t) {
		return Native{time.Time{}}
	}
	switch t := t.(type) {
	case *types.Named, *types.Alias:
		return zero(t.Underlying())
	case *types.Basic:
		switch {
		case t.Info()&types.IsBoolean != 0:
			return tFalse
		case t.Info()&types.IsString != 0:
			return Str{}
		case t.Info()&types.IsFloat != 0:
			return FConst(0)
		case t.Info()&types.IsComplex != 0:
			return nil
		case t.Info()&types.IsInteger != 0:
			return Const(intWidth(t), 0)
		case t.Kind() == types.UnsafePointer:
			return Ptr{}
		case t.Kind() == types.UntypedNil:
			return nil
		}
		panic("zero: basic " + t.String())
	case *types.Pointer:
		return Ptr{}
	case *types.Slice:
		return Slice{}
	case *types.Map:
		return (*Map)(nil)
	case *types.Interface:
		return Iface{}
	case *types.Signature:
		return NilFunc{}
	case *types.Chan:
		return nil
	case *types.Struct:
		s := make(Struct, t.NumFields())
		for i := range s {
			s[i] = zero(t.Field(i).Type())
		}
		return s
	case *types.Array:
		a := make(Array, t.Len())
		for i := range a {
			a[i] = zero(t.Elem())
		}
		return a
	case *types.Tuple:
		tu := make(Tuple, t.Len())
		for i := range tu {
			tu[i] = zero(t.At(i).Type())
		}
		return tu
	}
	panic(fmt.Sprintf("zero: %T %v", t, t))
}

func intWidth(t *types.Basic) uint8 {
	switch t.Kind() {
	case types.Int8, types.Uint8:
		return 8
	case types.Int16, types.Uint16:
		return 16
	case types.Int32, types.Uint32:
		return 32
	}
	return 64
}
func isSigned(t types.Type) bool {
	b, ok := t.Underlying().(*types.Basic)
	return ok && b.Info()&types.IsInteger != 0 && b.Info()&types.IsUnsigned == 0
}

func copyVal(v Value) Value {
	switch v := v.(type) {
	case Struct:
		c := make(Struct, len(v))
		for i := range v {
			c[i] = copyVal(v[i])
		}
		return c
	case Array:
		c := make(Array, len(v))
		for i := range v {
			c[i] = copyVal(v[i])
		}
		return c
	}
	return v
}

// concrete key for maps; ok=false if symbolic
func hashKey(v Value) (string, bool) {
	switch v := v.(type) {
	case *Term:
		if !v.IsConst() {
			return "", false
		}
		if v.F {
			return fmt.Sprintf("f%v", v.Float()), true
		}
		return fmt.Sprintf("i%d:%d", v.W, v.V), true
	case Str:
		if !v.Concrete() {
			return "", false
		}
		return "s" + v.s, true
	case Ptr:
		return fmt.Sprintf("p%p", v.slot), true
	case Iface:
		if v.t == nil {
			return "nil", true
		}
		k, ok := hashKey(v.v)
		return "I" + v.t.String() + "/" + k, ok
	case Struct:
		var sb strings.Builder
		for _, f := range v {
			k, ok := hashKey(f)
			if !ok {
				return "", false
			}
			sb.WriteString(k + ";")
		}
		return "S" + sb.String(), true
	case Array:
		var sb strings.Builder
		for _, f := range v {
			k, ok := hashKey(f)
			if !ok {
				return "", false
			}
			sb.WriteString(k + ";")
		}
		return "A" + sb.String(), true
	case Rtype:
		return "T" + v.t.String(), true
	case Native:
		return fmt.Sprintf("N%v", v.v), true
	case nil:
		return "nil", true
	}
	panic(fmt.Sprintf("hashKey %T", v))
}

func (m *Map) sortedKeys() []string {
	ks := make([]string, 0, len(m.m))
	for k := range m.m {
		ks = append(ks, k)
	}
	sort.Strings(ks)
	return ks
}
