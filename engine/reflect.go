package main

import (
	"fmt"
	"go/types"
	"reflect"
	"sort"

	"golang.org/x/tools/go/ssa"
)

// RV models reflect.Value.
type RV struct {
	valid bool
	t     types.Type
	v     Value
	ro    bool // reached through an unexported field (reflect's flagStickyRO)
	ero   bool // IS an unexported embedded field (flagEmbedRO): read-only itself, its exported fields are not
	addr  bool // addressable
}

type BoundMethod struct {
	fn   *ssa.Function
	recv Value
}

func isReflectValue(t types.Type) bool {
	n, ok := t.(*types.Named)
	return ok && n.Obj().Pkg() != nil && n.Obj().Pkg().Path() == "reflect" && n.Obj().Name() == "Value"
}

func kindOf(t types.Type) reflect.Kind {
	switch u := t.Underlying().(type) {
	case *types.Basic:
		switch u.Kind() {
		case types.Bool:
			return reflect.Bool
		case types.Int:
			return reflect.Int
		case types.Int8:
			return reflect.Int8
		case types.Int16:
			return reflect.Int16
		case types.Int32:
			return reflect.Int32
		case types.Int64:
			return reflect.Int64
		case types.Uint:
			return reflect.Uint
		case types.Uint8:
			return reflect.Uint8
		case types.Uint16:
			return reflect.Uint16
		case types.Uint32:
			return reflect.Uint32
		case types.Uint64:
			return reflect.Uint64
		case types.Uintptr:
			return reflect.Uintptr
		case types.Float32:
			return reflect.Float32
		case types.Float64:
			return reflect.Float64
		case types.String:
			return reflect.String
		case types.UnsafePointer:
			return reflect.UnsafePointer
		}
	case *types.Array:
		return reflect.Array
	case *types.Chan:
		return reflect.Chan
	case *types.Signature:
		return reflect.Func
	case *types.Interface:
		return reflect.Interface
	case *types.Map:
		return reflect.Map
	case *types.Pointer:
		return reflect.Pointer
	case *types.Slice:
		return reflect.Slice
	case *types.Struct:
		return reflect.Struct
	}
	panic("kindOf " + t.String())
}

func (e *Exec) rtypeIface(t types.Type) Iface {
	rt := e.prog.ImportedPackage("reflect").Type("rtype").Type()
	return Iface{t: types.NewPointer(rt), v: Rtype{t}}
}

func (e *Exec) rvKind(r RV) reflect.Kind {
	if !r.valid {
		return reflect.Invalid
	}
	return kindOf(r.t)
}

func (e *Exec) mustKind(r RV, op string, ks ...reflect.Kind) {
	k := e.rvKind(r)
	for _, x := range ks {
		if x == k {
			return
		}
	}
	e.gopanic(fmt.Sprintf("reflect: call of reflect.Value.%s on %s Value", op, k))
}

func rvOfIface(i Iface) RV {
	if i.t == nil {
		return RV{}
	}
	return RV{valid: true, t: i.t, v: i.v}
}

func init() {
	R := func(name string, f func(e *Exec, r RV, a []Value) Value) {
		intrinsics["(reflect.Value)."+name] = func(e *Exec, a []Value) Value { return f(e, a[0].(RV), a[1:]) }
	}
	intrinsics["reflect.ValueOf"] = func(e *Exec, a []Value) Value { return rvOfIface(a[0].(Iface)) }
	intrinsics["(reflect.Kind).String"] = func(e *Exec, a []Value) Value {
		return Str{s: reflect.Kind(a[0].(*Term).V).String()}
	}
	R("Kind", func(e *Exec, r RV, a []Value) Value { return Const(64, uint64(e.rvKind(r))) })
	R("IsValid", func(e *Exec, r RV, a []Value) Value { return Bool(r.valid) })
	R("CanInterface", func(e *Exec, r RV, a []Value) Value {
		if !r.valid {
			e.gopanic("reflect: CanInterface on zero Value")
		}
		return Bool(!r.ro && !r.ero)
	})
	R("Type", func(e *Exec, r RV, a []Value) Value {
		if !r.valid {
			e.gopanic("reflect: call of reflect.Value.Type on zero Value")
		}
		return e.rtypeIface(r.t)
	})
	R("Interface", func(e *Exec, r RV, a []Value) Value {
		if !r.valid {
			e.gopanic("reflect: call of reflect.Value.Interface on zero Value")
		}
		if r.ro || r.ero {
			e.gopanic("reflect.Value.Interface: cannot return value obtained from unexported field or method")
		}
		if kindOf(r.t) == reflect.Interface {
			return r.v.(Iface)
		}
		return Iface{t: r.t, v: r.v}
	})
	R("Elem", func(e *Exec, r RV, a []Value) Value {
		e.mustKind(r, "Elem", reflect.Pointer, reflect.Interface)
		if kindOf(r.t) == reflect.Interface {
			x := rvOfIface(r.v.(Iface))
			x.ro = r.ro || r.ero
			return x
		}
		p := r.v.(Ptr)
		if p.slot == nil {
			return RV{}
		}
		return RV{valid: true, t: r.t.Underlying().(*types.Pointer).Elem(), v: copyVal(*p.slot), ro: r.ro, ero: r.ero, addr: true}
	})
	R("Int", func(e *Exec, r RV, a []Value) Value {
		e.mustKind(r, "Int", reflect.Int, reflect.Int8, reflect.Int16, reflect.Int32, reflect.Int64)
		return Sext(r.v.(*Term), 64)
	})
	R("Uint", func(e *Exec, r RV, a []Value) Value {
		e.mustKind(r, "Uint", reflect.Uint, reflect.Uint8, reflect.Uint16, reflect.Uint32, reflect.Uint64, reflect.Uintptr)
		return Zext(r.v.(*Term), 64)
	})
	R("Float", func(e *Exec, r RV, a []Value) Value {
		e.mustKind(r, "Float", reflect.Float32, reflect.Float64)
		return r.v
	})
	R("Bool", func(e *Exec, r RV, a []Value) Value {
		e.mustKind(r, "Bool", reflect.Bool)
		return r.v
	})
	R("String", func(e *Exec, r RV, a []Value) Value {
		if !r.valid {
			return Str{s: "<invalid Value>"}
		}
		if kindOf(r.t) == reflect.String {
			return r.v
		}
		return Str{s: "<" + types.TypeString(r.t, func(p *types.Package) string { return p.Name() }) + " Value>"}
	})
	R("Len", func(e *Exec, r RV, a []Value) Value {
		e.mustKind(r, "Len", reflect.Array, reflect.Chan, reflect.Map, reflect.Slice, reflect.String)
		switch v := r.v.(type) {
		case Str:
			return Const(64, uint64(v.Len()))
		case Slice:
			return Const(64, uint64(len(v.v)))
		case Array:
			return Const(64, uint64(len(v)))
		case *Map:
			if v == nil {
				return Const(64, 0)
			}
			return Const(64, uint64(v.Len()))
		}
		panic("Len")
	})
	R("Index", func(e *Exec, r RV, a []Value) Value {
		e.mustKind(r, "Index", reflect.Array, reflect.Slice, reflect.String)
		idx := a[0].(*Term)
		switch v := r.v.(type) {
		case Str:
			i := e.rIndex(idx, v.Len())
			return RV{valid: true, t: types.Typ[types.Uint8], v: v.At(i), ro: r.ro || r.ero}
		case Slice:
			i := e.rIndex(idx, len(v.v))
			return RV{valid: true, t: r.t.Underlying().(*types.Slice).Elem(), v: copyVal(v.v[i]), ro: r.ro || r.ero, addr: true}
		case Array:
			i := e.rIndex(idx, len(v))
			return RV{valid: true, t: r.t.Underlying().(*types.Array).Elem(), v: copyVal(v[i]), ro: r.ro || r.ero, addr: r.addr}
		}
		panic("Index")
	})
	R("Slice", func(e *Exec, r RV, a []Value) Value {
		e.mustKind(r, "Slice", reflect.Array, reflect.Slice, reflect.String)
		i := int(int64(e.concretize(a[0].(*Term), 64)))
		j := int(int64(e.concretize(a[1].(*Term), 64)))
		switch v := r.v.(type) {
		case Str:
			if i < 0 || j < i || j > v.Len() {
				e.gopanic("reflect.Value.Slice: string slice index out of bounds")
			}
			return RV{valid: true, t: r.t, v: v.Sub(i, j)}
		case Slice:
			if i < 0 || j < i || j > cap(v.v) {
				e.gopanic("reflect.Value.Slice: slice index out of bounds")
			}
			return RV{valid: true, t: r.t, v: Slice{o: v.o, v: v.v[i:j], ok: true}}
		case Array:
			if !r.addr {
				e.gopanic("reflect.Value.Slice: slice of unaddressable array")
			}
			if i < 0 || j < i || j > len(v) {
				e.gopanic("reflect.Value.Slice: slice index out of bounds")
			}
			return RV{valid: true, t: types.NewSlice(r.t.Underlying().(*types.Array).Elem()), v: Slice{o: e.newObj("rslice"), v: []Value(v)[i:j], ok: true}}
		}
		panic("Slice")
	})
	R("Convert", func(e *Exec, r RV, a []Value) Value {
		if !r.valid {
			e.gopanic("reflect: call of reflect.Value.Convert on zero Value")
		}
		dt := a[0].(Iface).v.(Rtype).t
		if !types.ConvertibleTo(r.t, dt) {
			e.gopanic(fmt.Sprintf("reflect.Value.Convert: value of type %s cannot be converted to type %s", r.t, dt))
		}
		out := RV{valid: true, t: dt, ro: r.ro, ero: r.ero}
		_, dstI := dt.Underlying().(*types.Interface)
		switch {
		case dstI && kindOf(r.t) != reflect.Interface:
			out.v = Iface{t: r.t, v: copyVal(r.v)}
		case dstI || types.Identical(r.t.Underlying(), dt.Underlying()):
			out.v = copyVal(r.v)
		default:
			out.v = e.conv(dt, r.t, r.v)
		}
		return out
	})
	R("MapIndex", func(e *Exec, r RV, a []Value) Value {
		e.mustKind(r, "MapIndex", reflect.Map)
		k := a[0].(RV)
		mt := r.t.Underlying().(*types.Map)
		if !k.valid {
			e.gopanic("reflect: call of reflect.Value.MapIndex with zero key Value")
		}
		if !types.AssignableTo(k.t, mt.Key()) {
			e.gopanic(fmt.Sprintf("reflect.Value.MapIndex: value of type %s is not assignable to type %s", k.t, mt.Key()))
		}
		key := k.v
		if _, isI := mt.Key().Underlying().(*types.Interface); isI && kindOf(k.t) != reflect.Interface {
			key = Iface{t: k.t, v: k.v}
		}
		ent := e.mapFind(r.v.(*Map), key)
		if ent == nil {
			return RV{}
		}
		return RV{valid: true, t: mt.Elem(), v: copyVal(ent.v), ro: r.ro || r.ero || k.ro || k.ero}
	})
	R("MapKeys", func(e *Exec, r RV, a []Value) Value {
		e.mustKind(r, "MapKeys", reflect.Map)
		m := r.v.(*Map)
		mt := r.t.Underlying().(*types.Map)
		var out []Value
		if m != nil {
			for _, k := range m.sortedKeys() {
				out = append(out, RV{valid: true, t: mt.Key(), v: copyVal(m.m[k].k), ro: r.ro || r.ero})
			}
			for _, ent := range m.sym {
				out = append(out, RV{valid: true, t: mt.Key(), v: copyVal(ent.k), ro: r.ro || r.ero})
			}
		}
		return Slice{o: e.newObj("mapkeys"), v: out, ok: true}
	})
	R("FieldByName", func(e *Exec, r RV, a []Value) Value {
		e.mustKind(r, "FieldByName", reflect.Struct)
		name := a[0].(Str)
		if nv, isNative := r.v.(Native); isNative {
			// native-opaque struct (time.Time): decide with the real reflect package
			if !name.Concrete() {
				e.cut("unsupported-symbolic:FieldByName on native struct")
			}
			if reflect.ValueOf(nv.v).FieldByName(name.s).IsValid() {
				e.cut("unsupported:field of native-opaque struct")
			}
			return RV{}
		}
		st := r.t.Underlying().(*types.Struct)
		if !name.Concrete() {
			found, ok := e.symFieldName(st, name)
			if !ok {
				return RV{}
			}
			name = Str{s: found}
		}
		path, _ := lookupField(st, name.s)
		if path == nil {
			return RV{}
		}
		cur := r
		for _, i := range path {
			if kindOf(cur.t) == reflect.Pointer { // embedded *T
				p := cur.v.(Ptr)
				if p.slot == nil {
					e.gopanic("reflect: indirection through nil pointer to embedded struct")
				}
				cur = RV{valid: true, t: cur.t.Underlying().(*types.Pointer).Elem(), v: copyVal(*p.slot), ro: cur.ro, ero: cur.ero, addr: true}
			}
			f := cur.t.Underlying().(*types.Struct).Field(i)
			cur = RV{valid: true, t: f.Type(), v: copyVal(cur.v.(Struct)[i]), ro: cur.ro || (!f.Exported() && !f.Embedded()), ero: !f.Exported() && f.Embedded(), addr: cur.addr}
		}
		return cur
	})
	R("MethodByName", func(e *Exec, r RV, a []Value) Value {
		if !r.valid {
			e.gopanic("reflect: call of reflect.Value.MethodByName on zero Value")
		}
		name := a[0].(Str)
		if !name.Concrete() {
			e.cut("unsupported-symbolic:MethodByName")
		}
		if kindOf(r.t) == reflect.Interface {
			return RV{} // not needed in spike
		}
		ms := e.prog.MethodSets.MethodSet(r.t)
		for i := 0; i < ms.Len(); i++ {
			sel := ms.At(i)
			if sel.Obj().Name() == name.s && sel.Obj().Exported() {
				fn := e.prog.MethodValue(sel)
				sig := sel.Type().(*types.Signature)
				return RV{valid: true, t: sig, v: &BoundMethod{fn: fn, recv: r.v}, ro: r.ro || r.ero}
			}
		}
		return RV{}
	})
	R("Call", func(e *Exec, r RV, a []Value) Value {
		e.mustKind(r, "Call", reflect.Func)
		sig := r.t.Underlying().(*types.Signature)
		in := a[0].(Slice)
		var args []Value
		np := sig.Params().Len()
		for i, x := range in.v {
			xv := x.(RV)
			var pt types.Type
			if sig.Variadic() && i >= np-1 {
				pt = sig.Params().At(np - 1).Type().(*types.Slice).Elem()
			} else {
				if i >= np {
					e.gopanic("reflect: Call with too many input arguments")
				}
				pt = sig.Params().At(i).Type()
			}
			if !xv.valid {
				e.gopanic("reflect: Call using zero Value argument")
			}
			if !types.AssignableTo(xv.t, pt) {
				e.gopanic(fmt.Sprintf("reflect: Call using %s as type %s", xv.t, pt))
			}
			v := xv.v
			if _, isI := pt.Underlying().(*types.Interface); isI && kindOf(xv.t) != reflect.Interface {
				v = Iface{t: xv.t, v: xv.v}
			}
			args = append(args, v)
		}
		if sig.Variadic() {
			if len(args) < np-1 {
				e.gopanic("reflect: Call with too few input arguments")
			}
			rest := append([]Value{}, args[np-1:]...)
			args = append(args[:np-1:np-1], Slice{o: e.newObj("variadic"), v: rest, ok: true})
		} else if len(args) != np {
			e.gopanic("reflect: Call with wrong number of input arguments")
		}
		var res Value
		switch f := r.v.(type) {
		case *BoundMethod:
			res = e.callFn(f.fn, append([]Value{f.recv}, args...), nil)
		default:
			res = e.call(f, args, 0)
		}
		var out []Value
		switch sig.Results().Len() {
		case 0:
		case 1:
			out = append(out, e.rvOfTyped(sig.Results().At(0).Type(), res))
		default:
			for i, x := range res.(Tuple) {
				out = append(out, e.rvOfTyped(sig.Results().At(i).Type(), x))
			}
		}
		return Slice{o: e.newObj("callres"), v: out, ok: true}
	})
}

func (e *Exec) rvOfTyped(t types.Type, v Value) RV { return RV{valid: true, t: t, v: v} }

func (e *Exec) rIndex(idx *Term, n int) int {
	if !idx.IsConst() {
		inr := Bin(OUlt, idx, Const(idx.W, uint64(n)))
		if !e.decide(inr) {
			e.gopanic("reflect: index out of range (symbolic)")
		}
		return int(e.concretize(idx, 64))
	}
	i := sx(idx.W, idx.V)
	if i < 0 || i >= int64(n) {
		e.gopanic("reflect: slice index out of range")
	}
	return int(i)
}

// methods of reflect.Type invoked through the interface on Rtype
func (e *Exec) rtypeMethod(rt Rtype, name string, args []Value) Value {
	t := rt.t
	switch name {
	case "Kind":
		return Const(64, uint64(kindOf(t)))
	case "String":
		return Str{s: types.TypeString(t, func(p *types.Package) string { return p.Name() })}
	case "NumIn":
		return Const(64, uint64(t.Underlying().(*types.Signature).Params().Len()))
	case "NumOut":
		return Const(64, uint64(t.Underlying().(*types.Signature).Results().Len()))
	case "IsVariadic":
		return Bool(t.Underlying().(*types.Signature).Variadic())
	case "In":
		i := int(args[0].(*Term).V)
		return e.rtypeIface(t.Underlying().(*types.Signature).Params().At(i).Type())
	case "Out":
		i := int(args[0].(*Term).V)
		return e.rtypeIface(t.Underlying().(*types.Signature).Results().At(i).Type())
	case "Elem":
		switch u := t.Underlying().(type) {
		case *types.Pointer:
			return e.rtypeIface(u.Elem())
		case *types.Slice:
			return e.rtypeIface(u.Elem())
		case *types.Array:
			return e.rtypeIface(u.Elem())
		case *types.Map:
			return e.rtypeIface(u.Elem())
		}
		e.gopanic("reflect: Elem of invalid type " + t.String())
	case "Key":
		return e.rtypeIface(t.Underlying().(*types.Map).Key())
	case "AssignableTo":
		return Bool(types.AssignableTo(t, args[0].(Iface).v.(Rtype).t))
	case "ConvertibleTo":
		// go/types' conversion rules are the language's; reflect follows them for the kinds pongo2 can meet
		return Bool(types.ConvertibleTo(t, args[0].(Iface).v.(Rtype).t))
	case "Comparable":
		return Bool(types.Comparable(t))
	case "FieldByName", "Field":
		st, ok := t.Underlying().(*types.Struct)
		if !ok {
			e.gopanic("reflect: " + name + " of non-struct type " + t.String())
		}
		sft := e.prog.ImportedPackage("reflect").Type("StructField").Type()
		mk := func(path []int, f *types.Var) Value {
			sf := zero(sft).(Struct)
			sf[0] = Str{s: f.Name()}
			if !f.Exported() && f.Pkg() != nil {
				sf[1] = Str{s: f.Pkg().Path()}
			}
			sf[2] = e.rtypeIface(f.Type())
			idx := make([]Value, len(path))
			for i, p := range path {
				idx[i] = Const(64, uint64(p))
			}
			sf[5] = Slice{o: e.newObj("StructField.Index"), v: idx, ok: true}
			sf[6] = Bool(f.Embedded())
			return sf
		}
		if name == "Field" {
			i := e.rIndex(args[0].(*Term), st.NumFields())
			return mk([]int{i}, st.Field(i))
		}
		fname := args[0].(Str)
		if !fname.Concrete() {
			found, ok := e.symFieldName(st, fname)
			if !ok {
				return Tuple{zero(sft), tFalse}
			}
			fname = Str{s: found}
		}
		if path, f := lookupField(st, fname.s); path != nil {
			return Tuple{mk(path, f), tTrue}
		}
		return Tuple{zero(sft), tFalse}
	case "NumField":
		return Const(64, uint64(t.Underlying().(*types.Struct).NumFields()))
	case "Name":
		if n, ok := t.(*types.Named); ok {
			return Str{s: n.Obj().Name()}
		}
		return Str{}
	case "MethodByName":
		name := args[0].(Str)
		if !name.Concrete() {
			e.cut("unsupported-symbolic:Type.MethodByName")
		}
		found := false
		ms := e.prog.MethodSets.MethodSet(t)
		for i := 0; i < ms.Len(); i++ {
			if ms.At(i).Obj().Name() == name.s && ms.At(i).Obj().Exported() {
				found = true
			}
		}
		mt := e.prog.ImportedPackage("reflect").Type("Method").Type()
		return Tuple{zero(mt), Bool(found)}
	}
	e.cut("unsupported-rtype-method:" + name)
	return nil
}

var _ = sort.Strings

// lookupField: the index path of field name in st as reflect's FieldByName finds it - a direct field,
// or one promoted through embedded structs / pointers to structs (breadth first, two levels).
func lookupField(st *types.Struct, name string) ([]int, *types.Var) {
	for i := 0; i < st.NumFields(); i++ {
		if st.Field(i).Name() == name {
			return []int{i}, st.Field(i)
		}
	}
	emb := func(f *types.Var) *types.Struct {
		if !f.Embedded() {
			return nil
		}
		t := f.Type().Underlying()
		if p, ok := t.(*types.Pointer); ok {
			t = p.Elem().Underlying()
		}
		es, _ := t.(*types.Struct)
		return es
	}
	for i := 0; i < st.NumFields(); i++ {
		if es := emb(st.Field(i)); es != nil {
			for j := 0; j < es.NumFields(); j++ {
				if es.Field(j).Name() == name {
					return []int{i, j}, es.Field(j)
				}
			}
		}
	}
	for i := 0; i < st.NumFields(); i++ {
		if es := emb(st.Field(i)); es != nil {
			for j := 0; j < es.NumFields(); j++ {
				if es2 := emb(es.Field(j)); es2 != nil {
					for k := 0; k < es2.NumFields(); k++ {
						if es2.Field(k).Name() == name {
							return []int{i, j, k}, es2.Field(k)
						}
					}
				}
			}
		}
	}
	return nil, nil
}

// fieldNames: every name lookupField can find in st
func fieldNames(st *types.Struct, depth int) []string {
	var out []string
	for i := 0; i < st.NumFields(); i++ {
		out = append(out, st.Field(i).Name())
	}
	if depth > 0 {
		for i := 0; i < st.NumFields(); i++ {
			if f := st.Field(i); f.Embedded() {
				t := f.Type().Underlying()
				if p, ok := t.(*types.Pointer); ok {
					t = p.Elem().Underlying()
				}
				if es, ok := t.(*types.Struct); ok {
					out = append(out, fieldNames(es, depth-1)...)
				}
			}
		}
	}
	return out
}

// symFieldName: a symbolic field name is decided against every name the struct knows (fork per name)
func (e *Exec) symFieldName(st *types.Struct, name Str) (string, bool) {
	seen := map[string]bool{}
	for _, fn := range fieldNames(st, 2) {
		if seen[fn] {
			continue
		}
		seen[fn] = true
		if len(fn) == name.Len() && e.decide(strEq(name, Str{s: fn})) {
			return fn, true
		}
	}
	return "", false
}

func init() {
	R := func(name string, f func(e *Exec, r RV, a []Value) Value) {
		intrinsics["(reflect.Value)."+name] = func(e *Exec, a []Value) Value { return f(e, a[0].(RV), a[1:]) }
	}
	R("CanAddr", func(e *Exec, r RV, a []Value) Value { return Bool(r.addr) })
	R("FieldByIndex", func(e *Exec, r RV, a []Value) Value {
		cur := r
		for _, iv := range a[0].(Slice).v {
			if kindOf(cur.t) == reflect.Pointer {
				p := cur.v.(Ptr)
				if p.slot == nil {
					e.gopanic("reflect: indirection through nil pointer to embedded struct")
				}
				cur = RV{valid: true, t: cur.t.Underlying().(*types.Pointer).Elem(), v: copyVal(*p.slot), ro: cur.ro, ero: cur.ero, addr: true}
			}
			e.mustKind(cur, "FieldByIndex", reflect.Struct)
			st := cur.t.Underlying().(*types.Struct)
			i := e.rIndex(iv.(*Term), st.NumFields())
			f := st.Field(i)
			cur = RV{valid: true, t: f.Type(), v: copyVal(cur.v.(Struct)[i]), ro: cur.ro || (!f.Exported() && !f.Embedded()), ero: !f.Exported() && f.Embedded(), addr: cur.addr}
		}
		return cur
	})
	R("IsNil", func(e *Exec, r RV, a []Value) Value {
		e.mustKind(r, "IsNil", reflect.Chan, reflect.Func, reflect.Interface, reflect.Map, reflect.Pointer, reflect.Slice, reflect.UnsafePointer)
		switch v := r.v.(type) {
		case Ptr:
			return Bool(v.slot == nil)
		case *Map:
			return Bool(v == nil)
		case Slice:
			return Bool(!v.ok)
		case Iface:
			return Bool(v.t == nil)
		case NilFunc:
			return tTrue
		case nil:
			return tTrue
		}
		return tFalse
	})
	R("NumField", func(e *Exec, r RV, a []Value) Value {
		e.mustKind(r, "NumField", reflect.Struct)
		return Const(64, uint64(r.t.Underlying().(*types.Struct).NumFields()))
	})
	R("Field", func(e *Exec, r RV, a []Value) Value {
		e.mustKind(r, "Field", reflect.Struct)
		st := r.t.Underlying().(*types.Struct)
		i := e.rIndex(a[0].(*Term), st.NumFields())
		f := st.Field(i)
		return RV{valid: true, t: f.Type(), v: copyVal(r.v.(Struct)[i]), ro: r.ro || (!f.Exported() && !f.Embedded()), ero: !f.Exported() && f.Embedded(), addr: r.addr}
	})
	intrinsics["reflect.SliceOf"] = func(e *Exec, a []Value) Value {
		return e.rtypeIface(types.NewSlice(a[0].(Iface).v.(Rtype).t))
	}
	intrinsics["reflect.MakeSlice"] = func(e *Exec, a []Value) Value {
		t := a[0].(Iface).v.(Rtype).t
		st, ok := t.Underlying().(*types.Slice)
		if !ok {
			e.gopanic("reflect.MakeSlice of non-slice type")
		}
		n := int(int64(e.concretize(a[1].(*Term), 64)))
		c := int(int64(e.concretize(a[2].(*Term), 64)))
		if n < 0 || c < n {
			e.gopanic("reflect.MakeSlice: len/cap out of range")
		}
		v := make([]Value, c)
		for i := range v {
			v[i] = zero(st.Elem())
		}
		return RV{valid: true, t: t, v: Slice{o: e.newObj("reflect.MakeSlice"), v: v[:n], ok: true}}
	}
	intrinsics["reflect.Copy"] = func(e *Exec, a []Value) Value {
		dst, src := a[0].(RV), a[1].(RV)
		d, ok := dst.v.(Slice)
		if !ok {
			e.gopanic("reflect.Copy: destination is not a slice")
		}
		var sv []Value
		switch s := src.v.(type) {
		case Slice:
			sv = s.v
		case Array:
			sv = []Value(s)
		default:
			e.gopanic("reflect.Copy: source is not a slice or array")
		}
		n := 0
		for n < len(d.v) && n < len(sv) {
			d.v[n] = copyVal(sv[n])
			n++
		}
		return Const(64, uint64(n))
	}
}
