package main

import (
	"regexp"
	"regexp/syntax"
	"strconv"
	"unicode"
)

// Symbolic-capable model of Go's regexp matching (leftmost-first semantics).
// The pattern is always concrete (taken from the native *regexp.Regexp the real
// code compiled); the subject may contain symbolic bytes. Matching is a
// backtracking search in priority order — the first match found is the match Go
// reports for non-POSIX syntax — where every character test on a symbolic byte
// is a decide() (fork), so on each path the match is concrete.

type rxMatcher struct {
	e   *Exec
	s   Str
	cap []int
}

func (m *rxMatcher) runeAt(pos int) (*Term, int) {
	return m.e.decodeRune(m.s.Sub(pos, m.s.Len()))
}

func (m *rxMatcher) inClass(r *Term, ranges []rune, fold bool) bool {
	if r.IsConst() {
		rv := rune(int32(r.V))
		for i := 0; i+1 < len(ranges); i += 2 {
			if ranges[i] <= rv && rv <= ranges[i+1] {
				return true
			}
		}
		return false
	}
	c := tFalse
	for i := 0; i+1 < len(ranges); i += 2 {
		lo, hi := Const(32, uint64(uint32(ranges[i]))), Const(32, uint64(uint32(ranges[i+1])))
		c = Or(c, And(Bin(OUle, lo, r), Bin(OUle, r, hi)))
	}
	return m.e.decide(c)
}

func isWordRune(r rune) bool {
	return r == '_' || r >= '0' && r <= '9' || r >= 'a' && r <= 'z' || r >= 'A' && r <= 'Z'
}

// match tries re at pos and calls k with the end position of each way to match, in priority order.
func (m *rxMatcher) match(re *syntax.Regexp, pos int, k func(int) bool) bool {
	switch re.Op {
	case syntax.OpEmptyMatch:
		return k(pos)
	case syntax.OpNoMatch:
		return false
	case syntax.OpLiteral:
		p := pos
		for _, want := range re.Rune {
			if p >= m.s.Len() {
				return false
			}
			r, w := m.runeAt(p)
			ok := false
			if re.Flags&syntax.FoldCase != 0 {
				rs := []rune{want, want}
				for f := unicode.SimpleFold(want); f != want; f = unicode.SimpleFold(f) {
					rs = append(rs, f, f)
				}
				ok = m.inClass(r, rs, false)
			} else {
				ok = m.e.decide(Eq(r, Const(32, uint64(uint32(want)))))
			}
			if !ok {
				return false
			}
			p += w
		}
		return k(p)
	case syntax.OpCharClass:
		if pos >= m.s.Len() {
			return false
		}
		r, w := m.runeAt(pos)
		if !m.inClass(r, re.Rune, false) {
			return false
		}
		return k(pos + w)
	case syntax.OpAnyChar, syntax.OpAnyCharNotNL:
		if pos >= m.s.Len() {
			return false
		}
		r, w := m.runeAt(pos)
		if re.Op == syntax.OpAnyCharNotNL && m.e.decide(Eq(r, Const(32, '\n'))) {
			return false
		}
		return k(pos + w)
	case syntax.OpBeginText:
		if pos != 0 {
			return false
		}
		return k(pos)
	case syntax.OpEndText:
		if pos != m.s.Len() {
			return false
		}
		return k(pos)
	case syntax.OpBeginLine:
		if pos == 0 || m.e.decide(Eq(m.s.At(pos-1), Const(8, '\n'))) {
			return k(pos)
		}
		return false
	case syntax.OpEndLine:
		if pos == m.s.Len() || m.e.decide(Eq(m.s.At(pos), Const(8, '\n'))) {
			return k(pos)
		}
		return false
	case syntax.OpCapture:
		return m.match(re.Sub[0], pos, func(end int) bool {
			var os, oe int
			if 2*re.Cap+1 < len(m.cap) {
				os, oe = m.cap[2*re.Cap], m.cap[2*re.Cap+1]
				m.cap[2*re.Cap], m.cap[2*re.Cap+1] = pos, end
			}
			if k(end) {
				return true
			}
			if 2*re.Cap+1 < len(m.cap) {
				m.cap[2*re.Cap], m.cap[2*re.Cap+1] = os, oe
			}
			return false
		})
	case syntax.OpConcat:
		var seq func(i, p int) bool
		seq = func(i, p int) bool {
			if i == len(re.Sub) {
				return k(p)
			}
			return m.match(re.Sub[i], p, func(e int) bool { return seq(i+1, e) })
		}
		return seq(0, pos)
	case syntax.OpAlternate:
		for _, sub := range re.Sub {
			if m.match(sub, pos, k) {
				return true
			}
		}
		return false
	case syntax.OpQuest:
		if re.Flags&syntax.NonGreedy != 0 {
			return k(pos) || m.match(re.Sub[0], pos, k)
		}
		return m.match(re.Sub[0], pos, k) || k(pos)
	case syntax.OpStar, syntax.OpPlus, syntax.OpRepeat:
		min, max := 0, -1
		switch re.Op {
		case syntax.OpPlus:
			min = 1
		case syntax.OpRepeat:
			min, max = re.Min, re.Max
		}
		nongreedy := re.Flags&syntax.NonGreedy != 0
		var rep func(n, p int) bool
		rep = func(n, p int) bool {
			more := func() bool {
				if max >= 0 && n >= max {
					return false
				}
				return m.match(re.Sub[0], p, func(e int) bool {
					if e == p && n >= min {
						return false // empty iteration: no progress
					}
					return rep(n+1, e)
				})
			}
			if n < min {
				return more()
			}
			if nongreedy {
				return k(p) || more()
			}
			return more() || k(p)
		}
		return rep(0, pos)
	case syntax.OpWordBoundary, syntax.OpNoWordBoundary:
		m.e.cut("unsupported-symbolic:regexp word boundary")
	}
	m.e.cut("unsupported-symbolic:regexp op " + re.Op.String())
	return false
}

var rxCache = map[string]*syntax.Regexp{}

func rxParse(pat string) (*syntax.Regexp, int) {
	re, err := syntax.Parse(pat, syntax.Perl)
	if err != nil {
		panic("regexp model: " + err.Error())
	}
	ncap := re.MaxCap()
	return re.Simplify(), ncap
}

// rxFind returns the leftmost-first match at or after byte offset from: (start, end, captures) or start = -1.
func (e *Exec) rxFind(pat string, s Str, from int) (int, int, []int) {
	re, ncap := rxParse(pat)
	e.modelsUsed["regexp (model: backtracking matcher over symbolic bytes, leftmost-first)"]++
	for start := from; start <= s.Len(); {
		m := &rxMatcher{e: e, s: s, cap: make([]int, 2*(ncap+1))}
		for i := range m.cap {
			m.cap[i] = -1
		}
		end := -1
		if m.match(re, start, func(p int) bool { end = p; return true }) {
			m.cap[0], m.cap[1] = start, end
			return start, end, m.cap
		}
		if start == s.Len() {
			break
		}
		_, w := e.decodeRune(s.Sub(start, s.Len()))
		start += w
	}
	return -1, -1, nil
}

func nativeRegexp(v Value) *regexp.Regexp {
	return (*v.(Ptr).slot).(Native).v.(*regexp.Regexp)
}

func init() {
	intrinsics["(*regexp.Regexp).MatchString"] = func(e *Exec, a []Value) Value {
		re := nativeRegexp(a[0])
		s := a[1].(Str)
		if s.Concrete() {
			return Bool(re.MatchString(s.s))
		}
		st, _, _ := e.rxFind(re.String(), s, 0)
		return Bool(st >= 0)
	}
	replaceAll := func(e *Exec, re *regexp.Regexp, s Str, repl func(m Str, caps []int) Str) Str {
		out := Str{}
		pos := 0     // next byte to copy
		search := 0  // where the next search starts
		for search <= s.Len() {
			st, en, caps := e.rxFind(re.String(), s, search)
			if st < 0 {
				break
			}
			if en == st && st == pos && pos > 0 && false {
				break
			}
			out = concat(out, s.Sub(pos, st))
			out = concat(out, repl(s.Sub(st, en), caps))
			pos = en
			if en > st {
				search = en
			} else {
				// empty match: advance one rune, copying it
				if en >= s.Len() {
					break
				}
				_, w := e.decodeRune(s.Sub(en, s.Len()))
				out = concat(out, s.Sub(en, en+w))
				pos = en + w
				search = en + w
			}
		}
		return concat(out, s.Sub(pos, s.Len()))
	}
	intrinsics["(*regexp.Regexp).ReplaceAllString"] = func(e *Exec, a []Value) Value {
		re := nativeRegexp(a[0])
		s, r := a[1].(Str), a[2].(Str)
		if s.Concrete() && r.Concrete() {
			return Str{s: re.ReplaceAllString(s.s, r.s)}
		}
		if !r.Concrete() {
			e.cut("unsupported-symbolic:regexp replacement template")
		}
		if !hasDollar(r.s) {
			return replaceAll(e, re, s, func(Str, []int) Str { return r })
		}
		// template with $N / ${N} group references (numeric groups only)
		type part struct {
			lit string
			grp int
		}
		var parts []part
		t := r.s
		for i := 0; i < len(t); {
			if t[i] != '$' {
				j := i
				for j < len(t) && t[j] != '$' {
					j++
				}
				parts = append(parts, part{lit: t[i:j], grp: -1})
				i = j
				continue
			}
			i++
			if i < len(t) && t[i] == '$' {
				parts = append(parts, part{lit: "$", grp: -1})
				i++
				continue
			}
			brace := i < len(t) && t[i] == '{'
			if brace {
				i++
			}
			j := i
			for j < len(t) && (t[j] >= '0' && t[j] <= '9' || t[j] == '_' || t[j] >= 'a' && t[j] <= 'z' || t[j] >= 'A' && t[j] <= 'Z') {
				j++
			}
			n, err := strconv.Atoi(t[i:j])
			if err != nil || j == i {
				e.cut("unsupported-symbolic:regexp replacement template with named group")
			}
			if brace {
				if j >= len(t) || t[j] != '}' {
					e.cut("unsupported-symbolic:regexp replacement template")
				}
				j++
			}
			parts = append(parts, part{grp: n})
			i = j
		}
		return replaceAll(e, re, s, func(m Str, caps []int) Str {
			out := Str{}
			for _, p := range parts {
				if p.grp < 0 {
					out = concat(out, Str{s: p.lit})
				} else if 2*p.grp+1 < len(caps) && caps[2*p.grp] >= 0 {
					out = concat(out, s.Sub(caps[2*p.grp], caps[2*p.grp+1]))
				}
			}
			return out
		})
	}
	intrinsics["(*regexp.Regexp).ReplaceAllStringFunc"] = func(e *Exec, a []Value) Value {
		re := nativeRegexp(a[0])
		s := a[1].(Str)
		fn := a[2]
		return replaceAll(e, re, s, func(m Str, _ []int) Str { return e.call(fn, []Value{m}, 0).(Str) })
	}
	intrinsics["(*regexp.Regexp).FindStringSubmatch"] = func(e *Exec, a []Value) Value {
		re := nativeRegexp(a[0])
		s := a[1].(Str)
		if s.Concrete() {
			r := re.FindStringSubmatch(s.s)
			if r == nil {
				return Slice{}
			}
			return e.strSlice(r)
		}
		st, _, caps := e.rxFind(re.String(), s, 0)
		if st < 0 {
			return Slice{}
		}
		out := make([]Value, len(caps)/2)
		for i := range out {
			if caps[2*i] >= 0 {
				out[i] = s.Sub(caps[2*i], caps[2*i+1])
			} else {
				out[i] = Str{}
			}
		}
		return Slice{o: e.newObj("submatch"), v: out, ok: true}
	}
	intrinsics["regexp.Compile"] = func(e *Exec, a []Value) Value {
		p := a[0].(Str)
		if !p.Concrete() {
			// pattern built from input (removetags): enumerate the few feasible values
			p = Str{s: e.concretizeStr(p, 64)}
		}
		re, err := regexp.Compile(p.s)
		if err != nil {
			return Tuple{Ptr{}, e.mkError(err.Error())}
		}
		return Tuple{Ptr{o: globalObj, slot: &[]Value{Native{re}}[0]}, Iface{}}
	}
}

func hasDollar(s string) bool {
	for i := 0; i < len(s); i++ {
		if s[i] == '$' {
			return true
		}
	}
	return false
}

// mkError builds an error value through the real errors.New.
func (e *Exec) mkError(msg string) Value {
	return e.callFn(e.prog.ImportedPackage("errors").Func("New"), []Value{Str{s: msg}}, nil)
}

// concretizeStr enumerates the feasible values of every symbolic byte of s
// (small domains only: the caller has usually constrained them already).
func (e *Exec) concretizeStr(s Str, limit int) string {
	if s.Concrete() {
		return s.s
	}
	b := make([]byte, s.Len())
	for i := range b {
		b[i] = byte(e.concretize(s.At(i), limit))
	}
	return string(b)
}
