package main

import "go/types"

// Capacity growth of append, as the Go 1.23 runtime (runtime.growslice /
// nextslicecap / roundupsize) computes it on linux/amd64. Code whose behaviour
// depends on cap() (buffer-size thresholds) is only modelled faithfully if the
// engine's append grows slices exactly like the native runtime does.

var goSizeClasses = []int{0, 8, 16, 24, 32, 48, 64, 80, 96, 112, 128, 144, 160, 176, 192, 208, 224, 240, 256, 288, 320, 352, 384, 416, 448, 480, 512, 576, 640, 704, 768, 896, 1024, 1152, 1280, 1408, 1536, 1792, 2048, 2304, 2688, 3072, 3200, 3456, 4096, 4864, 5376, 6144, 6528, 6784, 6912, 8192, 9472, 9728, 10240, 10880, 12288, 13568, 14336, 16384, 18432, 19072, 20480, 21760, 24576, 27264, 28672, 32768}

func goRoundupsize(size int, noscan bool) int {
	req := size
	if req <= 32768-8 {
		if !noscan && req > 512 {
			req += 8
		}
		for _, c := range goSizeClasses {
			if c >= req {
				return c - (req - size)
			}
		}
	}
	req += 8192 - 1
	return req &^ (8192 - 1)
}

func goNextSliceCap(newLen, oldCap int) int {
	newcap := oldCap
	doublecap := newcap + newcap
	if newLen > doublecap {
		return newLen
	}
	const threshold = 256
	if oldCap < threshold {
		return doublecap
	}
	for {
		newcap += (newcap + 3*threshold) >> 2
		if uint(newcap) >= uint(newLen) {
			break
		}
	}
	if newcap <= 0 {
		return newLen
	}
	return newcap
}

var gcSizes = types.SizesFor("gc", "amd64")

func hasPointers(t types.Type) bool {
	switch u := t.Underlying().(type) {
	case *types.Basic:
		return u.Kind() == types.String || u.Kind() == types.UnsafePointer
	case *types.Array:
		return u.Len() > 0 && hasPointers(u.Elem())
	case *types.Struct:
		for i := 0; i < u.NumFields(); i++ {
			if hasPointers(u.Field(i).Type()) {
				return true
			}
		}
		return false
	}
	return true
}

// goGrowCap returns the capacity of the new backing array when append has to grow.
func goGrowCap(oldCap, newLen int, elem types.Type) int {
	es := 8
	noscan := false
	if elem != nil {
		es = int(gcSizes.Sizeof(elem))
		noscan = !hasPointers(elem)
	}
	nc := goNextSliceCap(newLen, oldCap)
	if es == 0 {
		return nc
	}
	mem := goRoundupsize(nc*es, noscan)
	return mem / es
}
