package main

import (
	"bytes"
	"context"
	"encoding/json"
	"fmt"
	"os"
	"os/exec"
	"path/filepath"
	"regexp"
	"sort"
	"strings"
	"sync"
	"time"
)

// Native replay: the SAME harness sources are compiled into package pongo2 of
// the real /repo working tree (go build -overlay, nothing written to /repo)
// behind a tiny main program; the nondet API reads the solver's vector.

type nativeCase struct {
	Harness string         `json:"harness"`
	Vector  []uint64       `json:"vector"`
	Params  map[string]int `json:"params"`
	Known   []string       `json:"known"`
}

type nativeResult struct {
	Status string // ok | assume | fail | panic | crash | timeout | setup-error
	Msg    string
	Obs    []string
	Raw    string
}

type nativeBin struct {
	dir  string
	bin  string
	race bool
	mu   sync.Mutex
	n    int
}

var reHarnessFunc = regexp.MustCompile(`(?m)^func (Harness[A-Za-z0-9_]*)\(\)`)

func buildNative(files []string, race bool) (*nativeBin, error) {
	dir, err := os.MkdirTemp("", "verifnative")
	if err != nil {
		return nil, err
	}
	nb := &nativeBin{dir: dir, race: race}
	ov := map[string]string{}
	for _, f := range files {
		ov[overlayName(f)] = harnessPath(f)
	}
	tbl, err := genTable(files)
	if err != nil {
		nb.Close()
		return nil, err
	}
	tpath := filepath.Join(dir, "table.go")
	os.WriteFile(tpath, tbl, 0o644)
	ov[filepath.Join(repoDir, "zz_verif_table.go")] = tpath
	ovb, _ := json.Marshal(map[string]any{"Replace": ov})
	ovpath := filepath.Join(dir, "overlay.json")
	os.WriteFile(ovpath, ovb, 0o644)
	mod := filepath.Join(dir, "m")
	os.MkdirAll(mod, 0o755)
	os.WriteFile(filepath.Join(mod, "go.mod"), []byte("module verifreplay\n\ngo 1.18\n\nrequire github.com/flosch/pongo2/v6 v6.0.0\n\nreplace github.com/flosch/pongo2/v6 => "+repoDir+"\n"), 0o644)
	if b, err := os.ReadFile(filepath.Join(repoDir, "go.sum")); err == nil {
		os.WriteFile(filepath.Join(mod, "go.sum"), b, 0o644)
	}
	os.WriteFile(filepath.Join(mod, "main.go"), []byte("package main\n\nimport pongo2 \"github.com/flosch/pongo2/v6\"\n\nfunc main() { pongo2.VerifMain() }\n"), 0o644)
	nb.bin = filepath.Join(dir, "replay.bin")
	args := []string{"build", "-overlay", ovpath, "-o", nb.bin}
	if race {
		args = append(args, "-race")
	}
	args = append(args, ".")
	cmd := exec.Command("go", args...)
	cmd.Dir = mod
	cmd.Env = append(os.Environ(), "GOFLAGS=-mod=mod", "GOPROXY=off", "GOSUMDB=off", "GOTOOLCHAIN=local")
	if race {
		cmd.Env = append(cmd.Env, "CGO_ENABLED=1")
	}
	out, err := cmd.CombinedOutput()
	if err != nil {
		nb.Close()
		return nil, fmt.Errorf("go build (native replay): %v\n%s", err, out)
	}
	return nb, nil
}

// genTable generates the name -> function table of all Harness* entry points.
func genTable(files []string) ([]byte, error) {
	var names []string
	for _, f := range files {
		src, err := os.ReadFile(harnessPath(f))
		if err != nil {
			return nil, err
		}
		for _, m := range reHarnessFunc.FindAllSubmatch(src, -1) {
			names = append(names, string(m[1]))
		}
	}
	sort.Strings(names)
	var tb strings.Builder
	tb.WriteString("package pongo2\n\nvar verifHarnessTable = map[string]func(){\n")
	for _, n := range names {
		fmt.Fprintf(&tb, "\t%q: %s,\n", n, n)
	}
	tb.WriteString("}\n")
	return []byte(tb.String()), nil
}

func (nb *nativeBin) Close() {
	if nb != nil && nb.dir != "" {
		os.RemoveAll(nb.dir)
	}
}

func (nb *nativeBin) run(c nativeCase, timeout time.Duration) nativeResult {
	nb.mu.Lock()
	nb.n++
	path := filepath.Join(nb.dir, fmt.Sprintf("case%d.json", nb.n))
	nb.mu.Unlock()
	b, _ := json.Marshal(c)
	os.WriteFile(path, b, 0o644)
	defer os.Remove(path)
	ctx, cancel := context.WithTimeout(context.Background(), timeout)
	defer cancel()
	cmd := exec.CommandContext(ctx, nb.bin, path)
	cmd.Dir = nb.dir
	cmd.Env = append(os.Environ(), "TMPDIR="+nb.dir, "GORACE=halt_on_error=0")
	var out bytes.Buffer
	cmd.Stdout = &out
	cmd.Stderr = &out
	err := cmd.Run()
	res := nativeResult{Raw: out.String()}
	if ctx.Err() == context.DeadlineExceeded {
		res.Status = "timeout"
		return res
	}
	for _, line := range strings.Split(out.String(), "\n") {
		switch {
		case strings.HasPrefix(line, "OBS "):
			res.Obs = append(res.Obs, line[4:])
		case strings.HasPrefix(line, "RESULT "):
			f := strings.SplitN(line[7:], " ", 2)
			res.Status = f[0]
			if len(f) > 1 {
				res.Msg = f[1]
			}
		}
	}
	if res.Status == "" {
		res.Status = "crash"
		if err != nil {
			res.Msg = err.Error()
		}
		tail := out.String()
		if len(tail) > 400 {
			tail = tail[:400]
		}
		res.Msg += " " + strings.ReplaceAll(tail, "\n", " | ")
	}
	return res
}

// confirms reports whether a native result reproduces an engine failure.
func confirms(f *Failure, r nativeResult) bool {
	switch f.Kind {
	case "assert":
		return r.Status == "fail" && r.Msg == f.Msg
	case "panic":
		return r.Status == "panic" || r.Status == "crash"
	case "budget":
		return r.Status == "timeout" || r.Status == "crash"
	}
	return false
}
