package main

import "strings"

func stringsContains(s, sub string) bool { return strings.Contains(s, sub) }
func stringsIndex(s, sub string) int     { return strings.Index(s, sub) }
func stringsSplit(s, sep string) []string { return strings.Split(s, sep) }
func stringsFields(s string) []string    { return strings.Fields(s) }
func stringsTrimSpace(s string) string   { return strings.TrimSpace(s) }
func stringsCount(s, sub string) int     { return strings.Count(s, sub) }
