package main

import (
	"fmt"
	"go/types"
	"regexp"
	"sort"
	"strconv"
	"strings"
)

const pp = "github.com/flosch/pongo2/v6."

var intrinsics map[string]intrinsic

func init() {
	intrinsics = map[string]intrinsic{
		pp + "verifByte":  func(e *Exec, a []Value) Value { return e.freshVar(8, "b") },
		pp + "verifInt":   func(e *Exec, a []Value) Value { return e.freshVar(64, "i") },
		pp + "verifBool":  func(e *Exec, a []Value) Value { return e.freshVar(0, "p") },
		pp + "verifFloat": func(e *Exec, a []Value) Value { return BV2F(e.freshVar(64, "f")) },
		pp + "verifChoice": func(e *Exec, a []Value) Value {
			n := a[0].(*Term)
			if !n.IsConst() || n.V == 0 {
				e.cut("verifChoice: bound must be a positive constant")
			}
			return Const(64, e.choose(n.V))
		},
		pp + "verifAssume": func(e *Exec, a []Value) Value { e.assume(a[0].(*Term)); return nil },
		pp + "verifAssert": func(e *Exec, a []Value) Value {
			e.assertTerm(a[0].(*Term), a[1].(Str).s)
			return nil
		},
		pp + "verifMonitorAssert": func(e *Exec, a []Value) Value {
			c := a[0].(*Term)
			e.obligations++
			if !c.IsConst() {
				e.cut("verifMonitorAssert: condition must be concrete")
			}
			if c.V == 0 {
				e.fail("monitor:"+a[1].(Str).s, nil)
			}
			e.discharged++
			return nil
		},
		// verifProvenance(out, what): byte-provenance obligation (see harness/api.go)
		pp + "verifProvenance": func(e *Exec, a []Value) Value {
			out := a[0].(Str)
			what := a[1].(Str).s
			cond := tTrue
			for i := 0; i < out.Len(); i++ {
				b := out.At(i)
				if b.IsConst() {
					continue
				}
				for _, c := range []byte{'<', '>', '"', '\'', '&'} {
					cond = And(cond, Not(Eq(b, Const(8, uint64(c)))))
				}
			}
			e.assertTerm(cond, what)
			return nil
		},
		pp + "verifEnvFixed": func(e *Exec, a []Value) Value { e.envFixed = a[0].(*Term).V != 0; return nil },
		pp + "verifEpoch": func(e *Exec, a []Value) Value { e.epoch++; return nil },
		pp + "verifObserve": func(e *Exec, a []Value) Value {
			v := a[1]
			if it, ok := v.(Iface); ok {
				v = it.v
			}
			e.obs = append(e.obs, obsEntry{a[0].(Str).s, v})
			return nil
		},
		pp + "verifCover": func(e *Exec, a []Value) Value { e.cover[a[0].(Str).s]++; return nil },
		pp + "verifParam": func(e *Exec, a []Value) Value {
			if v, ok := e.params[a[0].(Str).s]; ok {
				return Const(64, uint64(int64(v)))
			}
			return a[1]
		},
		pp + "verifKnown":         func(e *Exec, a []Value) Value { return Bool(e.known[a[0].(Str).s]) },
		pp + "verifSharedWrites":  func(e *Exec, a []Value) Value { return Const(64, uint64(e.sharedTotal())) },
		pp + "verifEnvAccesses":   func(e *Exec, a []Value) Value { return Const(64, uint64(e.envTotal())) },
		pp + "verifUnlockedCache": func(e *Exec, a []Value) Value {
			n := 0
			for _, c := range e.unlockedAccessesToWrittenMaps() {
				n += c
			}
			return Const(64, uint64(n))
		},
		pp + "verifLocksHeld":  func(e *Exec, a []Value) Value { return Const(64, uint64(e.held)) },
		pp + "verifLockEvents": func(e *Exec, a []Value) Value { return Const(64, uint64(e.lockEvents)) },
		// verifMonitor(what): engine-side obligation over the monitor streams since the last epoch
		pp + "verifMonitor": func(e *Exec, a []Value) Value {
			what := a[0].(Str).s
			e.obligations++
			var bad map[string]int
			var msg string
			switch what {
			case "no-shared-writes":
				bad, msg = e.sharedWrites, "unsynchronised write to state shared between executions"
			case "no-env-access":
				bad, msg = e.envAccess, "direct access to the environment (OS/clock) bypassing the loaders"
			case "maps-locked":
				bad, msg = e.unlockedAccessesToWrittenMaps(), "shared map that is written during execution accessed without holding a lock"
			default:
				e.cut("verifMonitor: unknown monitor " + what)
			}
			if len(bad) == 0 {
				e.discharged++
				return nil
			}
			var sites []string
			for s := range bad {
				sites = append(sites, shortSite(s))
			}
			sort.Strings(sites)
			e.fail("monitor:"+msg+" at "+strings.Join(sites, "; "), nil)
			return nil
		},

		"strings.HasPrefix": func(e *Exec, a []Value) Value {
			s, p := a[0].(Str), a[1].(Str)
			if s.Len() < p.Len() {
				return tFalse
			}
			return strEq(s.Sub(0, p.Len()), p)
		},
		"strings.HasSuffix": func(e *Exec, a []Value) Value {
			s, p := a[0].(Str), a[1].(Str)
			if s.Len() < p.Len() {
				return tFalse
			}
			return strEq(s.Sub(s.Len()-p.Len(), s.Len()), p)
		},
		"strings.ContainsRune": func(e *Exec, a []Value) Value {
			s, r := a[0].(Str), a[1].(*Term)
			res := tFalse
			if !s.Concrete() {
				for i := 0; i < s.Len(); {
					c, w := e.decodeRune(s.Sub(i, s.Len()))
					res = Or(res, Eq(r, c))
					i += w
				}
				return res
			}
			for _, c := range s.s {
				res = Or(res, Eq(r, Const(32, uint64(uint32(c)))))
			}
			return res
		},
		"strings.Replace": func(e *Exec, a []Value) Value {
			s, old, nw := a[0].(Str), a[1].(Str), a[2].(Str)
			n := a[3].(*Term)
			if s.Concrete() && old.Concrete() && nw.Concrete() && n.IsConst() {
				return Str{s: strings.Replace(s.s, old.s, nw.s, int(sx(64, n.V)))}
			}
			if old.Len() == 0 || !n.IsConst() {
				e.cut("unsupported-symbolic:Replace")
			}
			cnt := int(sx(64, n.V))
			var out []*Term
			i := 0
			for i < s.Len() {
				if cnt != 0 && i+old.Len() <= s.Len() && e.decide(strEq(s.Sub(i, i+old.Len()), old)) {
					out = append(out, nw.Bytes()...)
					i += old.Len()
					cnt--
					continue
				}
				out = append(out, s.At(i))
				i++
			}
			return mkStr(out)
		},
		"strings.TrimLeft": func(e *Exec, a []Value) Value {
			s, cs := a[0].(Str), a[1].(Str)
			if !cs.Concrete() {
				e.cut("unsupported-symbolic:TrimLeft cutset")
			}
			i := 0
			for i < s.Len() && e.decide(inCutset(s.At(i), cs.s)) {
				i++
			}
			return s.Sub(i, s.Len())
		},
		"strings.TrimRight": func(e *Exec, a []Value) Value {
			s, cs := a[0].(Str), a[1].(Str)
			if !cs.Concrete() {
				e.cut("unsupported-symbolic:TrimRight cutset")
			}
			j := s.Len()
			for j > 0 && e.decide(inCutset(s.At(j-1), cs.s)) {
				j--
			}
			return s.Sub(0, j)
		},
		"strings.Repeat": func(e *Exec, a []Value) Value {
			s := a[0].(Str)
			n := int(int64(e.concretize(a[1].(*Term), 64)))
			if n < 0 {
				e.gopanic("strings: negative Repeat count")
			}
			var out []*Term
			for i := 0; i < n; i++ {
				out = append(out, s.Bytes()...)
			}
			return mkStr(out)
		},
		"strings.Join": func(e *Exec, a []Value) Value {
			sl, sep := a[0].(Slice), a[1].(Str)
			out := Str{}
			for i, x := range sl.v {
				if i > 0 {
					out = concat(out, sep)
				}
				out = concat(out, x.(Str))
			}
			return out
		},
		"strings.ToUpper": func(e *Exec, a []Value) Value { return asciiMap(e, a[0].(Str), 'a', 'z', 0xE0) },
		"strings.ToLower": func(e *Exec, a []Value) Value { return asciiMap(e, a[0].(Str), 'A', 'Z', 0x20) },
		"strings.Clone":                func(e *Exec, a []Value) Value { return a[0] },
		"internal/stringslite.Clone":   func(e *Exec, a []Value) Value { return a[0] },
		"unicode/utf8.DecodeRuneInString": func(e *Exec, a []Value) Value {
			r, w := e.decodeRune(a[0].(Str))
			return Tuple{r, Const(64, uint64(w))}
		},
		"fmt.Sprintf": func(e *Exec, a []Value) Value { return e.sprintf(a[0].(Str), a[1].(Slice)) },
		"regexp.MustCompile": func(e *Exec, a []Value) Value {
			return Ptr{o: globalObj, slot: &[]Value{Native{regexp.MustCompile(a[0].(Str).s)}}[0]}
		},
		"(*sync.Mutex).Lock": func(e *Exec, a []Value) Value {
			p := a[0].(Ptr)
			st := (*p.slot).(Struct)
			if st[0].(*Term).V != 0 {
				e.gopanic("deadlock: Lock of locked mutex (single goroutine)")
			}
			st[0] = Const(32, 1)
			e.held++
			e.lockEvents++
			return nil
		},
		"(*sync.Mutex).Unlock": func(e *Exec, a []Value) Value {
			p := a[0].(Ptr)
			st := (*p.slot).(Struct)
			if st[0].(*Term).V == 0 {
				e.gopanic("sync: unlock of unlocked mutex")
			}
			st[0] = Const(32, 0)
			e.held--
			return nil
		},
		"fmt.Errorf": func(e *Exec, a []Value) Value {
			msg := e.sprintf(a[0].(Str), a[1].(Slice))
			return e.callFn(e.prog.ImportedPackage("errors").Func("New"), []Value{msg}, nil)
		},
		"math/rand.Seed": func(e *Exec, a []Value) Value { return nil },
		"log.New":        func(e *Exec, a []Value) Value { return Ptr{o: globalObj, slot: &[]Value{Native{"logger"}}[0]} },
		"reflect.TypeOf": func(e *Exec, a []Value) Value {
			it := a[0].(Iface)
			if it.t == nil {
				return Iface{} // reflect.TypeOf(nil) is a nil Type
			}
			rt := e.prog.ImportedPackage("reflect").Type("rtype").Type()
			return Iface{t: types.NewPointer(rt), v: Rtype{it.t}}
		},
		"reflect.Zero": func(e *Exec, a []Value) Value {
			it := a[0].(Iface)
			if it.t == nil {
				e.gopanic("reflect: Zero(nil)")
			}
			t := it.v.(Rtype).t
			return RV{valid: true, t: t, v: zero(t)}
		},
	}
	// package initialisers of the standard library are not executed
}

// ASCII cutsets only (pongo2 uses " \n\r\t" and "\t ")
func inCutset(b *Term, cs string) *Term {
	r := tFalse
	for i := 0; i < len(cs); i++ {
		if cs[i] >= 0x80 {
			panic("non-ASCII cutset")
		}
		r = Or(r, Eq(b, Const(8, uint64(cs[i]))))
	}
	return r
}

// ASCII-only case mapping: bytes >= 0x80 cut the path (assumption must be stated by the harness)
func asciiMap(e *Exec, s Str, lo, hi byte, delta uint64) Value {
	if s.Concrete() {
		if delta == 0x20 {
			return Str{s: strings.ToLower(s.s)}
		}
		return Str{s: strings.ToUpper(s.s)}
	}
	out := make([]*Term, s.Len())
	for i := range out {
		b := s.At(i)
		if e.decide(Bin(OUle, Const(8, 0x80), b)) {
			e.cut("unsupported-symbolic:non-ASCII case mapping")
		}
		in := And(Bin(OUle, Const(8, uint64(lo)), b), Bin(OUle, b, Const(8, uint64(hi))))
		out[i] = Ite(in, Bin(OAdd, b, Const(8, delta)), b)
	}
	return mkStr(out)
}

func (e *Exec) strSlice(ss []string) Value {
	v := make([]Value, len(ss))
	for i, s := range ss {
		v[i] = Str{s: s}
	}
	return Slice{o: e.newObj("native"), v: v, ok: true}
}

// assertTerm discharges one obligation: PC ∧ ¬c must be unsat.
func (e *Exec) assertTerm(c *Term, what string) {
	e.obligations++
	if c.IsTrue() {
		e.discharged++
		return
	}
	if c.IsFalse() {
		e.fail(what, nil)
	}
	if v, ok := e.decided[c]; ok && v {
		e.discharged++
		return
	}
	e.nontrivial++
	r := e.solver.Check(Not(c))
	if r == "sat" {
		m := e.solver.Model()
		e.solver.Pop()
		e.fail(what, m)
	}
	e.solver.Pop()
	if r != "unsat" {
		e.cut("solver:" + r)
	}
	e.discharged++
	e.decided[c] = true
	e.solver.Assert(c)
}

func (e *Exec) fail(msg string, m map[string]uint64) {
	e.failPos = e.curPos()
	if m == nil {
		if e.solver.Check(nil) == "sat" {
			m = e.solver.Model()
		}
	}
	e.failModel = m
	panic(pathEnd{"fail", msg})
}

func (e *Exec) sharedTotal() int {
	n := 0
	for _, c := range e.sharedWrites {
		n += c
	}
	return n
}
func (e *Exec) envTotal() int {
	n := 0
	for _, c := range e.envAccess {
		n += c
	}
	return n
}

// observedEval renders the observations of this path under the current model,
// in the format the native API prints them.
func (e *Exec) observedEval() []string {
	ev := evaluator{m: e.model, memo: map[*Term]uint64{}}
	var out []string
	for _, o := range e.obs {
		switch v := o.val.(type) {
		case Str:
			b := make([]byte, v.Len())
			for i := range b {
				b[i] = byte(ev.eval(v.At(i)))
			}
			out = append(out, o.tag+"="+strconv.Quote(string(b)))
		case *Term:
			switch {
			case v.F:
				out = append(out, o.tag+"=?")
			case v.W == 0:
				out = append(out, fmt.Sprintf("%s=%t", o.tag, ev.eval(v) == 1))
			default:
				out = append(out, fmt.Sprintf("%s=%d", o.tag, sx(v.W, ev.eval(v))))
			}
		default:
			out = append(out, o.tag+"=?")
		}
	}
	return out
}

func shortSite(s string) string {
	s = strings.ReplaceAll(s, repoDir+"/", "")
	s = strings.ReplaceAll(s, "/repo/", "")
	s = strings.ReplaceAll(s, "github.com/flosch/pongo2/v6.", "")
	return s
}
