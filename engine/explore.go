package main

import (
	"fmt"
	"sort"
	"strings"
	"sync"
	"time"

	"golang.org/x/tools/go/ssa"
)

// Failure is one violated obligation with the concrete input vector the solver produced.
type Failure struct {
	Kind     string   `json:"kind"` // assert | panic | budget | monitor
	Msg      string   `json:"msg"`
	Pos      string   `json:"pos,omitempty"`
	Vector   []uint64 `json:"vector"`
	Observed []string `json:"observed,omitempty"`
	Count    int      `json:"count"` // paths that failed with the same (kind,msg)
}

// Sample is a completed path kept for evidence and for cross-validation.
type Sample struct {
	Vector   []uint64 `json:"vector"`
	Observed []string `json:"observed"`
	Outcome  string   `json:"outcome"`
	Decisions int     `json:"decisions"`
}

type Result struct {
	Entry        string
	Params       map[string]int
	Paths        int // completed without failure
	AssumeEnded  int
	Failed       int
	Cuts         map[string]int
	Obligations  int // verifAssert calls + implicit panic checks decided
	NonTrivial   int // obligations that needed the solver
	Discharged   int // obligations proven unsat / constant-true
	Queries      int
	Sat, Unsat, Unknown int
	SolverTime   time.Duration
	MaxQuery     time.Duration
	Steps        int64
	MaxDecisions int
	SymbolicBits int // max over paths
	ChoicePoints int // max over paths
	Failures     map[string]*Failure
	Samples      []Sample
	Funcs        map[string]int
	Models       map[string]int // library models / stubs used
	Shared       map[string]int // write-monitor sites
	Env          map[string]int // environment-monitor sites
	Cover        map[string]int
	Wall         time.Duration
	Incomplete   int // queue items abandoned because of the time/path budget
	mu           sync.Mutex
}

type Explorer struct {
	prog     *ssa.Program
	pkg      *ssa.Package
	harness  *ssa.Function
	params   map[string]int
	known    map[string]bool
	mu       sync.Mutex
	cond     *sync.Cond
	queue    []qitem
	active   int
	res      *Result
	maxPaths int
	deadline time.Time
	stop     bool
	seed     int64
	sampleEvery int
	nseen    int
}

type qitem struct {
	prefix []Dec
	model  map[string]uint64
}

func (x *Explorer) push(p []Dec, m map[string]uint64) {
	x.mu.Lock()
	x.queue = append(x.queue, qitem{p, m})
	x.mu.Unlock()
	x.cond.Signal()
}

func (x *Explorer) pop() (qitem, bool) {
	x.mu.Lock()
	defer x.mu.Unlock()
	for {
		if x.stop || (len(x.queue) == 0 && x.active == 0) {
			x.cond.Broadcast()
			return qitem{}, false
		}
		if len(x.queue) > 0 {
			break
		}
		x.cond.Wait()
	}
	p := x.queue[len(x.queue)-1]
	x.queue = x.queue[:len(x.queue)-1]
	x.active++
	return p, true
}

func (x *Explorer) done() {
	x.mu.Lock()
	x.active--
	total := x.res.Paths + x.res.AssumeEnded + x.res.Failed
	if (x.maxPaths > 0 && total >= x.maxPaths) || (!x.deadline.IsZero() && time.Now().After(x.deadline)) {
		x.stop = true
	}
	x.mu.Unlock()
	x.cond.Broadcast()
}

func (x *Explorer) Run(workers int) *Result {
	t0 := time.Now()
	x.cond = sync.NewCond(&x.mu)
	x.queue = []qitem{{nil, map[string]uint64{}}}
	var wg sync.WaitGroup
	for w := 0; w < workers; w++ {
		wg.Add(1)
		go func() {
			defer wg.Done()
			sv := NewSolver()
			defer sv.Close()
			for {
				p, ok := x.pop()
				if !ok {
					return
				}
				x.runPath(sv, p)
				x.done()
			}
		}()
	}
	wg.Wait()
	x.res.Incomplete = len(x.queue)
	x.res.Wall = time.Since(t0)
	return x.res
}

func newResult(entry string, params map[string]int) *Result {
	return &Result{Entry: entry, Params: params, Cuts: map[string]int{}, Failures: map[string]*Failure{}, Funcs: map[string]int{},
		Models: map[string]int{}, Shared: map[string]int{}, Env: map[string]int{}, Cover: map[string]int{}}
}

func (x *Explorer) runPath(sv *Solver, it qitem) {
	prefix := it.prefix
	sv.Reset()
	q0, t0 := sv.nQuery, sv.tSolve
	s0, u0, k0 := sv.nSat, sv.nUnsat, sv.nUnk
	e := &Exec{prog: x.prog, pkg: x.pkg, globals: map[*ssa.Global]*Value{}, solver: sv, prefix: prefix,
		enqueue: x.push, intr: map[*ssa.Function]intrinsic{}, funcsHit: map[*ssa.Function]int{}, res: x.res, model: it.model,
		sharedWrites: map[string]int{}, envAccess: map[string]int{}, params: x.params, known: x.known, modelsUsed: map[string]int{}, cover: map[string]int{}, decided: map[*Term]bool{}, lockedWrites: map[string]int{}, mapWritten: map[*Map]bool{}, mapUnlocked: map[*Map]map[string]int{}, harnessFn: map[*ssa.Function]bool{}}
	outcome := "ok"
	detail := ""
	func() {
		defer func() {
			if r := recover(); r != nil {
				switch r := r.(type) {
				case pathEnd:
					outcome, detail = r.kind, r.msg
				case goPanic:
					outcome, detail = "panic", r.msg
				default:
					outcome, detail = "cut", fmt.Sprintf("engine-internal: %v @%s", r, e.curPos())
				}
			}
		}()
		e.callFn(x.pkg.Func("init"), nil, nil)
		e.epoch = 1
		e.callFn(x.harness, nil, nil)
	}()
	// a Go panic escaping the harness is a failure on its own: the solver
	// already decided the path feasible; get a model for the vector.
	var vec []uint64
	if outcome == "panic" || outcome == "fail" {
		if outcome == "panic" || e.failModel == nil {
			if sv.Check(nil) == "sat" {
				e.model = sv.Model()
			}
		} else {
			e.model = e.failModel
		}
	}
	vec = e.vector()
	// implicit obligation of every path: no Go panic condition was satisfiable and no budget was exhausted
	e.obligations++
	if outcome == "ok" || outcome == "assume" {
		e.discharged++
	}
	st := x.res
	st.mu.Lock()
	defer st.mu.Unlock()
	st.Steps += e.steps
	st.Queries += sv.nQuery - q0
	st.Sat += sv.nSat - s0
	st.Unsat += sv.nUnsat - u0
	st.Unknown += sv.nUnk - k0
	st.SolverTime += sv.tSolve - t0
	if sv.maxQ > st.MaxQuery {
		st.MaxQuery = sv.maxQ
	}
	st.Obligations += e.obligations
	st.NonTrivial += e.nontrivial
	st.Discharged += e.discharged
	if len(e.trace) > st.MaxDecisions {
		st.MaxDecisions = len(e.trace)
	}
	if e.symBits > st.SymbolicBits {
		st.SymbolicBits = e.symBits
	}
	if e.choices > st.ChoicePoints {
		st.ChoicePoints = e.choices
	}
	for k, n := range e.sharedWrites {
		st.Shared[k] += n
	}
	for k, n := range e.envAccess {
		st.Env[k] += n
	}
	for k, n := range e.modelsUsed {
		st.Models[k] += n
	}
	for k, n := range e.cover {
		st.Cover[k] += n
	}
	for f, n := range e.funcsHit {
		st.Funcs[f.String()] += n
	}
	if dumpAll {
		fmt.Printf("PATH %s | %s %s | %v\n", strings.Join(e.observed, " "), outcome, detail, vec)
	}
	switch outcome {
	case "ok":
		st.Paths++
		x.nseen++
		if len(st.Samples) < 6 || (x.sampleEvery > 0 && x.nseen%x.sampleEvery == 0 && len(st.Samples) < 400) {
			st.Samples = append(st.Samples, Sample{Vector: vec, Observed: e.observedEval(), Outcome: "ok", Decisions: len(e.trace)})
		}
	case "assume":
		st.AssumeEnded++
	case "cut":
		st.Cuts[detail]++
	case "panic", "fail":
		st.Failed++
		kind := "assert"
		if outcome == "panic" {
			kind = "panic"
		} else if strings.HasPrefix(detail, "budget:") {
			kind = "budget"
		} else if strings.HasPrefix(detail, "monitor:") {
			kind = "monitor"
		}
		key := kind + "|" + detail
		if f, ok := st.Failures[key]; ok {
			f.Count++
		} else {
			st.Failures[key] = &Failure{Kind: kind, Msg: detail, Pos: e.failPos, Vector: vec, Observed: e.observedEval(), Count: 1}
		}
	}
}

// vector evaluates the nondet inputs of this path, in creation order, under the model.
func (e *Exec) vector() []uint64 {
	v := make([]uint64, len(e.inputs))
	for i, t := range e.inputs {
		v[i] = e.model[t.Name] & mask(t.W)
	}
	return v
}

func (r *Result) sortedFailures() []*Failure {
	var ks []string
	for k := range r.Failures {
		ks = append(ks, k)
	}
	sort.Strings(ks)
	var out []*Failure
	for _, k := range ks {
		out = append(out, r.Failures[k])
	}
	return out
}

func (r *Result) Summary() string {
	var sb strings.Builder
	fmt.Fprintf(&sb, "%s %v: paths=%d assume-ended=%d failed=%d obligations=%d (solver-decided %d) queries=%d solver=%.2fs wall=%.2fs maxdec=%d",
		r.Entry, r.Params, r.Paths, r.AssumeEnded, r.Failed, r.Obligations, r.NonTrivial, r.Queries, r.SolverTime.Seconds(), r.Wall.Seconds(), r.MaxDecisions)
	if r.Incomplete > 0 {
		fmt.Fprintf(&sb, " INCOMPLETE(pending=%d)", r.Incomplete)
	}
	for k, v := range r.Cuts {
		fmt.Fprintf(&sb, "\n  cut %-60s %d", k, v)
	}
	for _, f := range r.sortedFailures() {
		fmt.Fprintf(&sb, "\n  FAIL[%s] %s x%d vec=%v obs=%v", f.Kind, f.Msg, f.Count, f.Vector, f.Observed)
	}
	for k, v := range r.Shared {
		fmt.Fprintf(&sb, "\n  shared-write %s (%d)", k, v)
	}
	for k, v := range r.Env {
		fmt.Fprintf(&sb, "\n  env-access %s (%d)", k, v)
	}
	return sb.String()
}
