package main

import (
	"crypto/sha1"
	"encoding/json"
	"flag"
	"fmt"
	"os"
	"path/filepath"
	"sort"
	"strconv"
	"strings"
	"sync"
	"time"
)

// ---- plan -------------------------------------------------------------------

type HarnessRun struct {
	Entry    string         `json:"entry"`
	Params   map[string]int `json:"params,omitempty"`
	BudgetS  int            `json:"budget_s,omitempty"`  // wall-clock budget; exceeding it is reported as a reduced bound
	MaxPaths int            `json:"max_paths,omitempty"` // path budget (same)
	Bounds   string         `json:"bounds,omitempty"`    // human-readable statement of the bounds of this run
	Race     bool           `json:"race,omitempty"`      // monitor findings of this run are confirmed with a -race build
	SolverMs int            `json:"solver_ms,omitempty"` // per-query solver time limit for this run (default 10000)
}

type PropPlan struct {
	Files    []string     `json:"files"`
	Claim    string       `json:"claim"`
	Assume   []string     `json:"assumptions"`
	Outside  []string     `json:"outside"`
	Quick    []HarnessRun `json:"quick"`
	Thorough []HarnessRun `json:"thorough"`
	// AllowedCuts: the reasons (text before " @") for which paths are cut on the
	// unchanged tree - the declared "outside the claim". A cut for another
	// unsupported-* / engine-internal reason means the tree uses something the
	// engine cannot encode: the run is then INCONCLUSIVE (exit 2), not a pass.
	AllowedCuts []string `json:"allowed_cuts"`
}

type KnownFinding struct {
	ID       string         `json:"id"`
	Property string         `json:"property"`
	Status   string         `json:"status"` // open | fixed
	What     string         `json:"what"`
	Commit   string         `json:"commit,omitempty"`
	Harness  string         `json:"harness,omitempty"`
	Files    []string       `json:"files,omitempty"`
	Params   map[string]int `json:"params,omitempty"`
	Vector   []uint64       `json:"vector,omitempty"`
	Expect   string         `json:"expect,omitempty"` // native status expected while the finding is open: fail|panic|crash|timeout
	Race     bool           `json:"race,omitempty"`
}

func loadPlan() (map[string]*PropPlan, error) {
	b, err := os.ReadFile(filepath.Join(verifDir, "harness", "plan.json"))
	if err != nil {
		return nil, err
	}
	m := map[string]*PropPlan{}
	if err := json.Unmarshal(b, &m); err != nil {
		return nil, fmt.Errorf("plan.json: %v", err)
	}
	return m, nil
}

func loadKnown() ([]KnownFinding, error) {
	b, err := os.ReadFile(filepath.Join(verifDir, "known_findings.json"))
	if err != nil {
		if os.IsNotExist(err) {
			return nil, nil
		}
		return nil, err
	}
	var k []KnownFinding
	if err := json.Unmarshal(b, &k); err != nil {
		return nil, fmt.Errorf("known_findings.json: %v", err)
	}
	return k, nil
}

// ---- replay files -------------------------------------------------------------

type ReplayFile struct {
	Property string         `json:"property"`
	Harness  string         `json:"harness"`
	Files    []string       `json:"files"`
	Params   map[string]int `json:"params"`
	Known    []string       `json:"known"`
	Vector   []uint64       `json:"vector"`
	Kind     string         `json:"kind"`
	Msg      string         `json:"msg"`
	Pos      string         `json:"engine_position,omitempty"`
	Observed []string       `json:"engine_observations,omitempty"`
	Native   string         `json:"native_result,omitempty"`
	Race     bool           `json:"race,omitempty"`
}

func writeReplay(rf ReplayFile) string {
	b, _ := json.MarshalIndent(rf, "", " ")
	h := sha1.Sum(b)
	dir := filepath.Join(verifDir, "replays")
	if d := os.Getenv("VERIF_REPLAY_DIR"); d != "" {
		dir = d
	}
	os.MkdirAll(dir, 0o755)
	p := filepath.Join(dir, fmt.Sprintf("%s-%s-%x.json", rf.Property, rf.Harness, h[:4]))
	os.WriteFile(p, b, 0o644)
	return p
}

func cmdReplay(args []string) int {
	if len(args) < 1 {
		usage()
	}
	b, err := os.ReadFile(args[0])
	if err != nil {
		fmt.Println(err)
		return 2
	}
	var rf ReplayFile
	if err := json.Unmarshal(b, &rf); err != nil {
		fmt.Println(err)
		return 2
	}
	nb, err := buildNative(rf.Files, rf.Race)
	if err != nil {
		fmt.Println("NATIVE-BUILD-ERROR:", err)
		return 2
	}
	defer nb.Close()
	nr := nb.run(nativeCase{Harness: rf.Harness, Vector: rf.Vector, Params: rf.Params, Known: rf.Known}, 60*time.Second)
	fmt.Printf("harness=%s vector=%v\nnative: %s %s\n", rf.Harness, rf.Vector, nr.Status, nr.Msg)
	for _, o := range nr.Obs {
		fmt.Println("  OBS", o)
	}
	if rf.Race {
		if i := strings.Index(nr.Raw, "WARNING: DATA RACE"); i >= 0 {
			r := nr.Raw[i:]
			if len(r) > 3000 {
				r = r[:3000]
			}
			fmt.Println(r)
			fmt.Printf("REPRODUCED: %s (race detector report)\n", rf.Msg)
			return 1
		}
	}
	if confirms(&Failure{Kind: rf.Kind, Msg: rf.Msg}, nr) {
		fmt.Printf("REPRODUCED: %s\n", rf.Msg)
		return 1
	}
	fmt.Println("NOT-REPRODUCED")
	return 0
}

// ---- run ----------------------------------------------------------------------

func cmdRun(args []string) int {
	if len(args) < 1 {
		usage()
	}
	id := args[0]
	fs := flag.NewFlagSet("run", flag.ExitOnError)
	tier := fs.String("tier", "", "quick|thorough")
	only := fs.String("only", "", "run only this harness entry (development)")
	noNative := fs.Bool("no-native", false, "skip native replay/cross-validation (development only; failures are then reported as unconfirmed)")
	fs.Parse(args[1:])
	if *tier == "" {
		*tier = os.Getenv("VERIF_TIER")
	}
	if *tier != "thorough" {
		*tier = "quick"
	}
	seed := int64(0)
	if s := os.Getenv("VERIF_SEED"); s != "" {
		seed, _ = strconv.ParseInt(s, 10, 64)
	}
	t0 := time.Now()
	plan, err := loadPlan()
	if err != nil {
		fmt.Println("PLAN-ERROR:", err)
		return 2
	}
	pp := plan[id]
	if pp == nil {
		fmt.Println("no plan for property", id)
		return 2
	}
	kfs, err := loadKnown()
	if err != nil {
		fmt.Println("KNOWN-FINDINGS-ERROR:", err)
		return 2
	}
	known := map[string]bool{}
	var open []KnownFinding
	for _, k := range kfs {
		if k.Property == id && k.Status == "open" {
			known[k.ID] = true
			open = append(open, k)
		}
	}
	files := append([]string{"api.go", "common.go"}, pp.Files...)
	prog, err := loadProgram(files)
	if err != nil {
		// The harness (an in-package overlay) no longer type-checks against this
		// tree: nothing can be decided. This is not a violation.
		fmt.Printf("INCONCLUSIVE property=%s: harness does not build against the current tree\n%v\n", id, err)
		writeEvidence(id, *tier, seed, pp, nil, nil, time.Since(t0), 0, []string{"harness overlay does not type-check against /repo: " + firstLine(err.Error())})
		return 3
	}
	fmt.Printf("[%s %s] loaded /repo + %d harness files, SSA built in %.1fs\n", id, *tier, len(files), prog.loadT.Seconds())

	var nb *nativeBin
	var nbErr error
	var nbOnce sync.Once
	getNative := func() (*nativeBin, error) {
		nbOnce.Do(func() { nb, nbErr = buildNative(files, false) })
		return nb, nbErr
	}
	defer func() {
		if nb != nil {
			nb.Close()
		}
	}()
	// start the native build in the background; it is needed in every run
	if !*noNative {
		go getNative()
	}

	runs := pp.Quick
	if *tier == "thorough" {
		runs = pp.Thorough
		if len(runs) == 0 {
			runs = pp.Quick
		}
	}
	exit := 0
	var results []*Result
	var notes []string
	violations := 0
	validated := 0

	// 1. open known findings: replay the stored witnesses natively first
	for _, k := range open {
		if k.Harness == "" || *noNative {
			fmt.Printf("KNOWN-FINDING: property=%s %s [%s]\n", id, k.What, k.ID)
			continue
		}
		b, err := getNative()
		if k.Race {
			b, err = buildNative(files, true)
			if err == nil {
				defer b.Close()
			}
		}
		if err != nil {
			fmt.Println("NATIVE-BUILD-ERROR:", err)
			return 2
		}
		nr := b.run(nativeCase{Harness: k.Harness, Vector: k.Vector, Params: k.Params}, 120*time.Second)
		if nr.Status == k.Expect || (k.Expect == "panic" && nr.Status == "crash") || (k.Expect == "race" && strings.Contains(nr.Raw, "DATA RACE")) {
			fmt.Printf("KNOWN-FINDING: property=%s %s [%s; witness still fails natively: %s %s]\n", id, k.What, k.ID, nr.Status, firstLine(nr.Msg))
		} else {
			notes = append(notes, fmt.Sprintf("known finding %s: stored witness no longer fails natively (%s) — it looks repaired; entry can be marked fixed", k.ID, nr.Status))
			fmt.Printf("note: known finding %s no longer reproduces (%s); the exclusion it grants stays as narrow as listed\n", k.ID, nr.Status)
		}
	}

	// 2. explore
	for _, hr := range runs {
		if *only != "" && hr.Entry != *only {
			continue
		}
		budget := time.Duration(hr.BudgetS) * time.Second
		se := 0
		if *tier == "thorough" {
			se = 50
		} else {
			se = 200
		}
		params := map[string]int{}
		for k, v := range hr.Params {
			params[k] = v
		}
		params["seed"] = int(seed)
		setSolverTimeout(hr.SolverMs)
		r, err := prog.explore(hr.Entry, params, known, budget, hr.MaxPaths, se)
		setSolverTimeout(0)
		if err != nil {
			fmt.Println("ERROR:", err)
			return 2
		}
		results = append(results, r)
		fmt.Println(r.Summary())
		if r.Incomplete > 0 {
			notes = append(notes, fmt.Sprintf("%s: budget reached with %d pending paths — bound only partially explored (reduced bound, not a pass of the full bound)", hr.Entry, r.Incomplete))
		}
		if r.Paths == 0 && r.Failed == 0 {
			notes = append(notes, fmt.Sprintf("%s: VACUOUS — no path reached the end of the harness", hr.Entry))
			fmt.Printf("INCONCLUSIVE: %s explored no complete path (vacuous harness)\n", hr.Entry)
			if exit == 0 {
				exit = 2
			}
		}
		// 3. failures: native confirmation
		for _, f := range r.sortedFailures() {
			rf := ReplayFile{Property: id, Harness: hr.Entry, Files: files, Params: params, Known: keys(known), Vector: f.Vector, Kind: f.Kind, Msg: f.Msg, Pos: f.Pos, Observed: f.Observed, Race: hr.Race}
			if *noNative {
				fmt.Printf("UNCONFIRMED-FAILURE (native replay skipped): [%s] %s\n", f.Kind, f.Msg)
				exit = 1
				continue
			}
			b, err := getNative()
			if err != nil {
				fmt.Println("NATIVE-BUILD-ERROR:", err)
				return 2
			}
			if f.Kind == "monitor" {
				ok, how := confirmMonitor(files, hr, params, known, f)
				rf.Native = how
				if ok {
					path := writeReplay(rf)
					violations++
					fmt.Printf("VIOLATION property=%s replay=%s\n  [%s] %s\n  confirmed natively: %s\n", id, path, f.Kind, f.Msg, how)
					exit = 1
				} else {
					fmt.Printf("ENCODER-MISMATCH: monitor finding %q not confirmed natively (%s)\n", f.Msg, how)
					notes = append(notes, "monitor finding not confirmed natively: "+f.Msg)
					if exit == 0 {
						exit = 2
					}
				}
				continue
			}
			to := 30 * time.Second
			if f.Kind == "budget" {
				to = 20 * time.Second
			}
			nr := b.run(nativeCase{Harness: hr.Entry, Vector: f.Vector, Params: params, Known: keys(known)}, to)
			rf.Native = nr.Status + " " + firstLine(nr.Msg)
			if confirms(f, nr) {
				path := writeReplay(rf)
				violations++
				fmt.Printf("VIOLATION property=%s replay=%s\n  [%s] %s (x%d paths)\n  input vector %v\n  engine observations %v\n  native: %s %s\n", id, path, f.Kind, f.Msg, f.Count, f.Vector, f.Observed, nr.Status, firstLine(nr.Msg))
				exit = 1
			} else {
				fmt.Printf("ENCODER-MISMATCH: [%s] %s vector=%v does not reproduce natively (native: %s %s)\n", f.Kind, f.Msg, f.Vector, nr.Status, firstLine(nr.Msg))
				notes = append(notes, fmt.Sprintf("counterexample for %q did not reproduce natively: encoder or model bug", f.Msg))
				if exit == 0 {
					exit = 2
				}
			}
		}
		// 4. cross-validation of passing paths against the real build
		if !*noNative && len(r.Samples) > 0 {
			b, err := getNative()
			if err != nil {
				fmt.Println("NATIVE-BUILD-ERROR:", err)
				return 2
			}
			n := len(r.Samples)
			lim := 12
			if *tier == "thorough" {
				lim = 60
			}
			idx := pickSamples(n, lim, seed)
			var wg sync.WaitGroup
			var mu sync.Mutex
			sem := make(chan struct{}, workers())
			bad := 0
			for _, i := range idx {
				wg.Add(1)
				sem <- struct{}{}
				go func(s Sample) {
					defer wg.Done()
					defer func() { <-sem }()
					nr := b.run(nativeCase{Harness: hr.Entry, Vector: s.Vector, Params: params, Known: keys(known)}, 60*time.Second)
					mu.Lock()
					defer mu.Unlock()
					if nr.Status != "ok" || !eqStrings(nr.Obs, s.Observed) {
						bad++
						if bad <= 3 {
							fmt.Printf("XVAL-MISMATCH %s vec=%v engine=ok %v native=%s %s %v\n", hr.Entry, s.Vector, s.Observed, nr.Status, firstLine(nr.Msg), nr.Obs)
						}
					} else {
						validated++
					}
				}(r.Samples[i])
			}
			wg.Wait()
			if bad > 0 {
				notes = append(notes, fmt.Sprintf("%s: %d passing paths disagree with the native build (encoder/model bug)", hr.Entry, bad))
				if exit == 0 {
					exit = 2
				}
			}
		}
	}
	// cuts that the unchanged tree does not have: reduced coverage must not look like a pass
	allowed := map[string]bool{}
	for _, c := range pp.AllowedCuts {
		allowed[c] = true
	}
	if d := plan["_defaults"]; d != nil {
		for _, c := range d.AllowedCuts {
			allowed[c] = true
		}
	}
	newCuts := map[string]int{}
	for _, r := range results {
		for k, n := range r.Cuts {
			reason := k
			if i := strings.Index(k, " @"); i >= 0 {
				reason = k[:i]
			}
			if strings.HasPrefix(reason, "solver:") || allowed[reason] {
				continue
			}
			newCuts[reason] += n
		}
	}
	if os.Getenv("VERIF_PRINT_CUTS") != "" {
		for _, r := range results {
			for k := range r.Cuts {
				reason := k
				if i := strings.Index(k, " @"); i >= 0 {
					reason = k[:i]
				}
				fmt.Printf("CUT-REASON %s %s\n", id, reason)
			}
		}
	}
	if len(newCuts) > 0 {
		var rs []string
		for k, n := range newCuts {
			rs = append(rs, fmt.Sprintf("%s (%d paths)", k, n))
		}
		sort.Strings(rs)
		notes = append(notes, "paths were cut for reasons that do not occur on the unchanged tree: "+strings.Join(rs, "; "))
		fmt.Printf("REDUCED-COVERAGE property=%s: paths cut for reasons not seen on the unchanged tree (the engine cannot encode something this tree uses): %s\n", id, strings.Join(rs, "; "))
		if exit == 0 {
			exit = 2
		}
	}
	writeEvidence(id, *tier, seed, pp, results, kfs, time.Since(t0), validated, notes)
	if exit == 0 {
		fmt.Printf("[%s %s] held on everything explored (%.1fs)\n", id, *tier, time.Since(t0).Seconds())
	} else if exit == 2 {
		fmt.Printf("[%s %s] INCONCLUSIVE (machinery contradicts itself; see notes in evidence)\n", id, *tier)
	}
	_ = violations
	return exit
}

func pickSamples(n, lim int, seed int64) []int {
	if n <= lim {
		idx := make([]int, n)
		for i := range idx {
			idx[i] = i
		}
		return idx
	}
	// deterministic stride with a seed-dependent offset
	step := n / lim
	off := int(seed) % step
	if off < 0 {
		off = -off
	}
	var idx []int
	for i := off; i < n && len(idx) < lim; i += step {
		idx = append(idx, i)
	}
	return idx
}

func firstLine(s string) string {
	if i := strings.IndexByte(s, '\n'); i >= 0 {
		s = s[:i]
	}
	if len(s) > 300 {
		s = s[:300]
	}
	return s
}

// confirmMonitor: a monitor obligation (write to shared state, OS access) cannot
// fail in the plain native replay because no monitor exists there. It is
// confirmed by a dedicated native demonstration selected by the harness run.
func confirmMonitor(files []string, hr HarnessRun, params map[string]int, known map[string]bool, f *Failure) (bool, string) {
	if hr.Race {
		b, err := buildNative(files, true)
		if err != nil {
			return false, "race build failed: " + firstLine(err.Error())
		}
		defer b.Close()
		p := map[string]int{}
		for k, v := range params {
			p[k] = v
		}
		p["race"] = 1
		nr := b.run(nativeCase{Harness: hr.Entry, Vector: f.Vector, Params: p, Known: keys(known)}, 120*time.Second)
		if strings.Contains(nr.Raw, "DATA RACE") {
			return true, "go build -race: DATA RACE reported by the harness's concurrent demonstration mode"
		}
		if nr.Status == "fail" {
			return true, "concurrent native run failed: " + nr.Msg
		}
		return false, "race build: " + nr.Status
	}
	if strings.Contains(f.Msg, "direct access to the environment") {
		// canary demonstration: the harness re-roots its virtual file tree in a real temporary directory in
		// which the names no loader serves exist as real files (param canary=1), and fails if they get through
		b, err := buildNative(files, false)
		if err != nil {
			return false, "native build failed: " + firstLine(err.Error())
		}
		defer b.Close()
		p := map[string]int{}
		for k, v := range params {
			p[k] = v
		}
		p["canary"] = 1
		nr := b.run(nativeCase{Harness: hr.Entry, Vector: f.Vector, Params: p, Known: keys(known)}, 120*time.Second)
		if nr.Status == "fail" || nr.Status == "panic" {
			return true, "native run with canary files on the real file system: " + nr.Status + " " + nr.Msg
		}
		return false, "canary run: " + nr.Status
	}
	return false, "no native demonstration available"
}

// ---- evidence ------------------------------------------------------------------

func writeEvidence(id, tier string, seed int64, pp *PropPlan, results []*Result, kfs []KnownFinding, wall time.Duration, validated int, notes []string) {
	cov := map[string]any{}
	states, trans, obl, nontriv, disch, failed, assumeEnded := 0, 0, 0, 0, 0, 0, 0
	sat, unsat, unk := 0, 0, 0
	var solverT, maxQ time.Duration
	cuts := map[string]int{}
	funcs := map[string]int{}
	models := map[string]int{}
	shared := map[string]int{}
	env := map[string]int{}
	var samples []any
	var harnesses []any
	exhaustive := len(results) > 0
	var steps int64
	for _, r := range results {
		states += r.Paths
		trans += r.Queries
		obl += r.Obligations
		nontriv += r.NonTrivial
		disch += r.Discharged
		failed += r.Failed
		assumeEnded += r.AssumeEnded
		sat += r.Sat
		unsat += r.Unsat
		unk += r.Unknown
		solverT += r.SolverTime
		steps += r.Steps
		if r.MaxQuery > maxQ {
			maxQ = r.MaxQuery
		}
		ncut := 0
		for k, v := range r.Cuts {
			cuts[k] += v
			ncut += v
		}
		for k, v := range r.Funcs {
			funcs[k] += v
		}
		for k, v := range r.Models {
			models[k] += v
		}
		for k, v := range r.Shared {
			shared[k] += v
		}
		for k, v := range r.Env {
			env[k] += v
		}
		if ncut > 0 || r.Incomplete > 0 || r.Unknown > 0 {
			exhaustive = false
		}
		for i, s := range r.Samples {
			if i >= 3 {
				break
			}
			samples = append(samples, map[string]any{"harness": r.Entry, "input_vector": s.Vector, "observations": s.Observed, "outcome": s.Outcome, "decisions_on_path": s.Decisions})
		}
		for _, f := range r.sortedFailures() {
			samples = append(samples, map[string]any{"harness": r.Entry, "input_vector": f.Vector, "observations": f.Observed, "outcome": f.Kind + ": " + f.Msg, "paths": f.Count})
		}
		h := map[string]any{"entry": r.Entry, "params": r.Params, "paths_completed": r.Paths, "paths_ended_by_assumption": r.AssumeEnded, "paths_failed": r.Failed,
			"obligations": r.Obligations, "obligations_decided_by_solver": r.NonTrivial, "discharged": r.Discharged, "queries": r.Queries,
			"solver_s": round3(r.SolverTime.Seconds()), "wall_s": round3(r.Wall.Seconds()), "max_decisions_on_a_path": r.MaxDecisions,
			"symbolic_bits": r.SymbolicBits, "choice_points": r.ChoicePoints, "pending_at_budget": r.Incomplete, "cuts": r.Cuts, "cover": r.Cover}
		harnesses = append(harnesses, h)
	}
	if len(samples) == 0 {
		samples = append(samples, map[string]any{"note": "no path completed"})
	}
	var pfuncs []string
	nlib := 0
	for f := range funcs {
		if strings.Contains(f, "pongo2") && !strings.Contains(f, "verif") && !strings.Contains(f, "Harness") {
			pfuncs = append(pfuncs, strings.ReplaceAll(f, "github.com/flosch/pongo2/v6.", ""))
		} else {
			nlib++
		}
	}
	sort.Strings(pfuncs)
	var lm []string
	for m := range models {
		lm = append(lm, m)
	}
	sort.Strings(lm)
	cov["states"] = states
	cov["transitions"] = trans
	cov["traces_validated_against_impl"] = validated
	cov["samples"] = samples
	cov["obligations"] = obl
	cov["obligations_decided_by_solver"] = nontriv
	cov["discharged"] = disch
	cov["paths_failed"] = failed
	cov["paths_ended_by_assumption"] = assumeEnded
	cov["exhaustive"] = exhaustive && failed == 0
	cov["explanation"] = "states = feasible paths of the real code completed inside the symbolic executor (each path stands for every input satisfying its path condition); transitions = SMT queries answered (fork feasibility + obligations); traces_validated_against_impl = passing paths whose solver model was replayed against the native build with identical observations"
	cov["functions_encoded"] = pfuncs
	cov["library_functions_executed_as_real_ssa"] = nlib
	cov["library_models_and_stubs_used"] = lm
	cov["harnesses"] = harnesses
	cov["cuts"] = cuts
	cov["solver"] = map[string]any{"cmd": strings.Join(solverCmd, " "), "sat": sat, "unsat": unsat, "unknown": unk, "total_s": round3(solverT.Seconds()), "max_query_s": round3(maxQ.Seconds())}
	cov["interpreted_ssa_instructions"] = steps
	cov["write_monitor_sites"] = shared
	cov["environment_monitor_sites"] = env
	cov["trusted_base"] = []string{"symgo SSA interpreter and term encoder (validated by native replay of every counterexample and of sampled passing paths)", "z3 4.8.12", "go/ssa v0.29.0", "library models listed in library_models_and_stubs_used"}
	if pp != nil {
		cov["claim"] = pp.Claim
		cov["outside_the_claim"] = pp.Outside
		var bs []string
		runs := pp.Quick
		if tier == "thorough" && len(pp.Thorough) > 0 {
			runs = pp.Thorough
		}
		for _, r := range runs {
			bs = append(bs, r.Entry+": "+r.Bounds)
		}
		cov["bounds"] = bs
	}
	var kl []any
	for _, k := range kfs {
		if k.Property == id {
			kl = append(kl, map[string]any{"id": k.ID, "status": k.Status, "what": k.What, "commit": k.Commit})
		}
	}
	cov["known_findings"] = kl
	cov["notes"] = notes
	ev := map[string]any{"property_id": id, "tier": tier, "seed": seed, "level": "model_checking", "coverage": cov, "wall_s": round3(wall.Seconds()), "violations": failed}
	if pp != nil {
		ev["assumptions"] = pp.Assume
	}
	b, _ := json.MarshalIndent(ev, "", " ")
	edir := filepath.Join(verifDir, "evidence")
	if d := os.Getenv("VERIF_EVIDENCE_DIR"); d != "" {
		edir = d // used when checks are run against a scratch copy of the repository (seed evaluation)
	}
	os.MkdirAll(edir, 0o755)
	os.WriteFile(filepath.Join(edir, id+".json"), append(b, '\n'), 0o644)
}

func round3(f float64) float64 { return float64(int64(f*1000+0.5)) / 1000 }

// cmdSelftest: self-validation of the machinery against the native build.
//   race: the lockset verdicts of C05/C20 are compared with Go's race detector
//         (go build -race, harness demonstration mode) for every generated program.
func cmdSelftest(args []string) int {
	bad := 0
	files := []string{"api.go", "common.go", "c04.go", "c14.go", "c20.go"}
	nb, err := buildNative(files, true)
	if err != nil {
		fmt.Println("NATIVE-BUILD-ERROR:", err)
		return 2
	}
	defer nb.Close()
	n := 0
	for prog := 0; prog < 30; prog++ {
		for opt := 0; opt < 4; opt += 3 {
			nr := nb.run(nativeCase{Harness: "HarnessC05", Vector: []uint64{uint64(prog), uint64(opt & 1), uint64(opt >> 1)}, Params: map[string]int{"race": 1}}, 120*time.Second)
			if nr.Status == "panic" && strings.Contains(nr.Msg, "index out of range") {
				prog = 1000
				break
			}
			n++
			if strings.Contains(nr.Raw, "DATA RACE") || nr.Status != "ok" {
				bad++
				fmt.Printf("selftest race: HarnessC05 program %d options %d: %s %s\n", prog, opt, nr.Status, firstLine(nr.Raw))
			}
		}
	}
	nr := nb.run(nativeCase{Harness: "HarnessC20Locking", Params: map[string]int{"race": 1}}, 120*time.Second)
	n++
	if strings.Contains(nr.Raw, "DATA RACE") || nr.Status != "ok" {
		bad++
		fmt.Printf("selftest race: HarnessC20Locking: %s %s\n", nr.Status, firstLine(nr.Raw))
	}
	fmt.Printf("selftest race: %d concurrent native demonstrations under the race detector, %d with a report\n", n, bad)
	if bad > 0 {
		return 1
	}
	return 0
}
