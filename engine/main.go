package main

import (
	"flag"
	"fmt"
	"os"
	"path/filepath"
	"runtime"
	"runtime/pprof"
	"strconv"
	"strings"
	"time"

	"golang.org/x/tools/go/packages"
	"golang.org/x/tools/go/ssa"
	"golang.org/x/tools/go/ssa/ssautil"
)

var dumpAll bool
var verifDir = "/verif"
var repoDir = "/repo"

func usage() {
	fmt.Fprintln(os.Stderr, `usage:
  symgo run <PROPERTY> [--tier quick|thorough]       run the registered check of a property
  symgo explore -files a.go,b.go -entry H [-p k=v,..] explore one harness (development)
  symgo replay <replay.json>                          replay a stored counterexample natively
  symgo selftest                                      engine self-validation`)
	os.Exit(64)
}

func main() {
	os.Setenv("GOFLAGS", "-mod=mod")
	os.Setenv("GOPROXY", "off")
	os.Setenv("GOSUMDB", "off")
	os.Setenv("GOTOOLCHAIN", "local")
	if d := os.Getenv("VERIF_DIR"); d != "" {
		verifDir = d
	}
	if d := os.Getenv("VERIF_REPO"); d != "" {
		repoDir = d
	}
	if len(os.Args) < 2 {
		usage()
	}
	if pf := os.Getenv("VERIF_CPUPROFILE"); pf != "" {
		f, _ := os.Create(pf)
		pprof.StartCPUProfile(f)
		defer pprof.StopCPUProfile()
	}
	code := 64
	switch os.Args[1] {
	case "run":
		code = cmdRun(os.Args[2:])
	case "explore":
		code = cmdExplore(os.Args[2:])
	case "replay":
		code = cmdReplay(os.Args[2:])
	case "selftest":
		code = cmdSelftest(os.Args[2:])
	default:
		usage()
	}
	pprof.StopCPUProfile()
	if pf := os.Getenv("VERIF_HEAPPROFILE"); pf != "" {
		f, _ := os.Create(pf)
		pprof.WriteHeapProfile(f)
		f.Close()
	}
	os.Exit(code)
}

func oldSwitch() {
	switch os.Args[1] {
	case "run":
		os.Exit(cmdRun(os.Args[2:]))
	case "explore":
		os.Exit(cmdExplore(os.Args[2:]))
	case "replay":
		os.Exit(cmdReplay(os.Args[2:]))
	case "selftest":
		os.Exit(cmdSelftest(os.Args[2:]))
	}
	usage()
}

// Program is /repo's current working tree + overlay harness files, as SSA.
type Program struct {
	prog  *ssa.Program
	pkg   *ssa.Package
	files []string // harness file names (relative to verifDir/harness)
	loadT time.Duration
}

func harnessPath(f string) string {
	if filepath.IsAbs(f) {
		return f
	}
	return filepath.Join(verifDir, "harness", f)
}

func overlayName(f string) string {
	return filepath.Join(repoDir, "zz_verif_"+filepath.Base(f))
}

// loadProgram type-checks /repo with the harness overlay and builds SSA for the
// whole program. Nothing is cached between runs: the encoding is regenerated
// from /repo's current source on every invocation.
func loadProgram(files []string) (*Program, error) {
	t0 := time.Now()
	ov := map[string][]byte{}
	for _, f := range files {
		src, err := os.ReadFile(harnessPath(f))
		if err != nil {
			return nil, err
		}
		ov[overlayName(f)] = src
	}
	tbl, err := genTable(files)
	if err != nil {
		return nil, err
	}
	ov[filepath.Join(repoDir, "zz_verif_table.go")] = tbl
	cfg := &packages.Config{Mode: packages.LoadAllSyntax, Dir: repoDir, Overlay: ov}
	pkgs, err := packages.Load(cfg, ".")
	if err != nil {
		return nil, err
	}
	var errs []string
	packages.Visit(pkgs, nil, func(p *packages.Package) {
		for _, e := range p.Errors {
			errs = append(errs, e.Error())
		}
	})
	if len(errs) > 0 {
		return nil, fmt.Errorf("type errors:\n  %s", strings.Join(errs, "\n  "))
	}
	prog, spkgs := ssautil.AllPackages(pkgs, ssa.InstantiateGenerics)
	prog.Build()
	return &Program{prog: prog, pkg: spkgs[0], files: files, loadT: time.Since(t0)}, nil
}

func workers() int {
	if s := os.Getenv("VERIF_WORKERS"); s != "" {
		if n, err := strconv.Atoi(s); err == nil && n > 0 {
			return n
		}
	}
	n := runtime.NumCPU()
	if n > 16 {
		n = 16
	}
	return n
}

func (p *Program) explore(entry string, params map[string]int, known map[string]bool, budget time.Duration, maxPaths int, sampleEvery int) (*Result, error) {
	h := p.pkg.Func(entry)
	if h == nil {
		return nil, fmt.Errorf("no harness function %s", entry)
	}
	x := &Explorer{prog: p.prog, pkg: p.pkg, harness: h, params: params, known: known, res: newResult(entry, params), maxPaths: maxPaths, sampleEvery: sampleEvery}
	if budget > 0 {
		x.deadline = time.Now().Add(budget)
	}
	return x.Run(workers()), nil
}

func parseParams(s string) map[string]int {
	m := map[string]int{}
	if s == "" {
		return m
	}
	for _, kv := range strings.Split(s, ",") {
		p := strings.SplitN(kv, "=", 2)
		if len(p) == 2 {
			n, _ := strconv.Atoi(p[1])
			m[p[0]] = n
		}
	}
	return m
}

func cmdExplore(args []string) int {
	fs := flag.NewFlagSet("explore", flag.ExitOnError)
	files := fs.String("files", "", "harness files (comma separated, relative to harness/); api.go and common.go are always included")
	entry := fs.String("entry", "", "harness function")
	ps := fs.String("p", "", "params k=v,k=v")
	known := fs.String("known", "", "open known-finding ids (comma separated)")
	budget := fs.Duration("budget", 0, "time budget")
	sms := fs.Int("solver-ms", 0, "per-query solver limit in ms")
	maxPaths := fs.Int("maxpaths", 0, "path budget")
	native := fs.Bool("native", false, "replay failures and samples natively")
	dq := fs.String("dump-queries", "", "write every solver query of the run to this file")
	fs.BoolVar(&dumpAll, "dump", false, "print every path outcome")
	fs.Parse(args)
	if *dq != "" {
		f, err := os.Create(*dq)
		if err != nil {
			fmt.Println(err)
			return 2
		}
		dumpQueries = f
		defer f.Close()
	}
	fl := append([]string{"api.go", "common.go"}, splitList(*files)...)
	p, err := loadProgram(fl)
	if err != nil {
		fmt.Println("LOAD-ERROR:", err)
		return 3
	}
	fmt.Printf("loaded+built in %v\n", p.loadT)
	km := map[string]bool{}
	for _, k := range splitList(*known) {
		km[k] = true
	}
	setSolverTimeout(*sms)
	r, err := p.explore(*entry, parseParams(*ps), km, *budget, *maxPaths, 0)
	if err != nil {
		fmt.Println(err)
		return 2
	}
	fmt.Println(r.Summary())
	for _, s := range r.Samples {
		if len(r.Samples) <= 6 {
			fmt.Printf("  sample %v obs=%v\n", s.Vector, s.Observed)
		}
	}
	if *native {
		nb, err := buildNative(fl, false)
		if err != nil {
			fmt.Println("NATIVE-BUILD-ERROR:", err)
			return 2
		}
		defer nb.Close()
		for _, f := range r.sortedFailures() {
			nr := nb.run(nativeCase{Harness: r.Entry, Vector: f.Vector, Params: r.Params, Known: keys(km)}, 20*time.Second)
			fmt.Printf("  native replay of [%s] %s: %s\n", f.Kind, f.Msg, nr.Status)
		}
		bad := 0
		for _, s := range r.Samples {
			nr := nb.run(nativeCase{Harness: r.Entry, Vector: s.Vector, Params: r.Params, Known: keys(km)}, 20*time.Second)
			if nr.Status != "ok" || !eqStrings(nr.Obs, s.Observed) {
				bad++
				fmt.Printf("  XVAL MISMATCH vec=%v engine=%v native=%s %v\n", s.Vector, s.Observed, nr.Status, nr.Obs)
			}
		}
		fmt.Printf("  cross-validated %d samples, %d mismatches\n", len(r.Samples), bad)
	}
	if r.Failed > 0 {
		return 1
	}
	return 0
}

func splitList(s string) []string {
	var out []string
	for _, x := range strings.Split(s, ",") {
		if x = strings.TrimSpace(x); x != "" {
			out = append(out, x)
		}
	}
	return out
}

func keys(m map[string]bool) []string {
	var out []string
	for k, v := range m {
		if v {
			out = append(out, k)
		}
	}
	return out
}

func eqStrings(a, b []string) bool {
	if len(a) != len(b) {
		return false
	}
	for i := range a {
		if a[i] != b[i] {
			return false
		}
	}
	return true
}
