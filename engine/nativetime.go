package main

import (
	"fmt"
	"go/types"
	"reflect"
	"time"

	"golang.org/x/tools/go/ssa"
)

// time.Time is a native-opaque value: Native{time.Time}. Its methods are
// dispatched to the real library through reflection when every argument is
// concrete; symbolic arguments cut the path.

func isNamed(t types.Type, pkg, name string) bool {
	n, ok := t.(*types.Named)
	return ok && n.Obj().Pkg() != nil && n.Obj().Pkg().Path() == pkg && n.Obj().Name() == name
}

func isTimeTime(t types.Type) bool { return isNamed(t, "time", "Time") }

func (e *Exec) toNative(v Value, rt reflect.Type) (reflect.Value, bool) {
	switch x := v.(type) {
	case Native:
		rv := reflect.ValueOf(x.v)
		if rv.IsValid() && rv.Type().AssignableTo(rt) {
			return rv, true
		}
	case *Term:
		if !x.IsConst() {
			return reflect.Value{}, false
		}
		switch rt.Kind() {
		case reflect.Int, reflect.Int8, reflect.Int16, reflect.Int32, reflect.Int64:
			r := reflect.New(rt).Elem()
			r.SetInt(sx(x.W, x.V))
			return r, true
		case reflect.Uint, reflect.Uint8, reflect.Uint16, reflect.Uint32, reflect.Uint64:
			r := reflect.New(rt).Elem()
			r.SetUint(x.V)
			return r, true
		case reflect.Bool:
			return reflect.ValueOf(x.V == 1), true
		case reflect.Float64, reflect.Float32:
			r := reflect.New(rt).Elem()
			r.SetFloat(x.Float())
			return r, true
		}
	case Str:
		if x.Concrete() && rt.Kind() == reflect.String {
			r := reflect.New(rt).Elem()
			r.SetString(x.s)
			return r, true
		}
	case Ptr:
		if rt == reflect.TypeOf((*time.Location)(nil)) {
			return reflect.ValueOf(time.UTC), true // locations other than UTC are not modelled
		}
	}
	return reflect.Value{}, false
}

func (e *Exec) fromNative(rv reflect.Value) (Value, bool) {
	switch rv.Kind() {
	case reflect.Int, reflect.Int8, reflect.Int16, reflect.Int32, reflect.Int64:
		w := uint8(rv.Type().Bits())
		return Const(w, uint64(rv.Int())), true
	case reflect.Uint, reflect.Uint8, reflect.Uint16, reflect.Uint32, reflect.Uint64:
		w := uint8(rv.Type().Bits())
		return Const(w, rv.Uint()), true
	case reflect.Bool:
		return Bool(rv.Bool()), true
	case reflect.String:
		return Str{s: rv.String()}, true
	case reflect.Float64, reflect.Float32:
		return FConst(rv.Float()), true
	case reflect.Struct:
		if rv.Type() == reflect.TypeOf(time.Time{}) {
			return Native{rv.Interface()}, true
		}
	case reflect.Ptr:
		if rv.Type() == reflect.TypeOf((*time.Location)(nil)) {
			return Ptr{}, true
		}
	}
	return nil, false
}

// nativeTimeMethod calls a method of time.Time on the native value.
func (e *Exec) nativeTimeMethod(fn *ssa.Function, args []Value) Value {
	name := fn.Name()
	recv, ok := args[0].(Native)
	var tv time.Time
	if ok {
		tv, ok = recv.v.(time.Time)
	}
	if p, isP := args[0].(Ptr); isP { // pointer receiver (*time.Time)
		if p.slot == nil {
			e.gopanic("nil pointer dereference (time.Time)")
		}
		if n, isN := (*p.slot).(Native); isN {
			tv, ok = n.v.(time.Time)
		}
	}
	if !ok {
		e.cut("unsupported:time.Time receiver of unexpected shape in " + name)
	}
	m := reflect.ValueOf(tv).MethodByName(name)
	if !m.IsValid() {
		e.cut("unsupported:time.Time method " + name)
	}
	mt := m.Type()
	in := make([]reflect.Value, 0, len(args)-1)
	for i, a := range args[1:] {
		if i >= mt.NumIn() {
			e.cut("unsupported:time.Time method arity " + name)
		}
		rv, ok := e.toNative(a, mt.In(i))
		if !ok {
			e.cut("unsupported-symbolic:time.Time." + name)
		}
		in = append(in, rv)
	}
	e.modelsUsed["time.Time methods (native call on concrete values)"]++
	out := m.Call(in)
	switch len(out) {
	case 0:
		return nil
	case 1:
		v, ok := e.fromNative(out[0])
		if !ok {
			e.cut("unsupported:time.Time result of " + name)
		}
		return v
	}
	t := make(Tuple, len(out))
	for i, o := range out {
		v, ok := e.fromNative(o)
		if !ok {
			e.cut("unsupported:time.Time result of " + name)
		}
		t[i] = v
	}
	return t
}

func init() {
	intrinsics["time.Date"] = func(e *Exec, a []Value) Value {
		var n [7]int
		for i := 0; i < 7; i++ {
			t := a[i].(*Term)
			if !t.IsConst() {
				e.cut("unsupported-symbolic:time.Date")
			}
			n[i] = int(sx(t.W, t.V))
		}
		return Native{time.Date(n[0], time.Month(n[1]), n[2], n[3], n[4], n[5], n[6], time.UTC)}
	}
	intrinsics["time.Now"] = func(e *Exec, a []Value) Value {
		e.envEvent("time.Now")
		// arbitrary-instant stub: a fixed instant (time arithmetic is not encoded)
		return Native{time.Date(2001, 2, 3, 4, 5, 6, 7, time.UTC)}
	}
	intrinsics["time.Unix"] = func(e *Exec, a []Value) Value {
		s, ns := a[0].(*Term), a[1].(*Term)
		if !s.IsConst() || !ns.IsConst() {
			e.cut("unsupported-symbolic:time.Unix")
		}
		return Native{time.Unix(int64(s.V), int64(ns.V)).UTC()}
	}
}

var _ = fmt.Sprint
