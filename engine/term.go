package main

import (
	"fmt"
	"math"
	"strings"
	"sync"
	"unsafe"
)

// Terms: bit-vectors (W = 8,16,32,64) and booleans (W = 0).
type Op uint8

const (
	OConst Op = iota
	OVar
	ONot
	OAnd
	OOr
	OEq
	OIte
	OAdd
	OSub
	OMul
	OUDiv
	OSDiv
	OURem
	OSRem
	OBAnd
	OBOr
	OBXor
	OShl
	OLShr
	OAShr
	OUlt
	OUle
	OSlt
	OSle
	OZext
	OSext
	OExtract // low W bits of A
	// floating point (Float64 sort: W=64, F=true)
	OFAdd
	OFSub
	OFMul
	OFDiv
	OFNeg
	OFLt
	OFLe
	OFEq
	OFIsNaN
	OBV2F    // reinterpret 64 bits as float64
	OS2F     // signed bv -> float64 (RNE)
	OU2F     // unsigned bv -> float64 (RNE)
	OF2S     // float64 -> signed bv W (RTZ; unspecified out of range, guarded by caller)
	OFCeil   // roundToIntegral RTP
	OFFloor  // roundToIntegral RTN
	OFTrunc  // roundToIntegral RTZ
	OFRound32 // round to float32 precision and back
	OFRoundNA // roundToIntegral RNA (math.Round)
	OFIsInf
	OFIsZero
	OFIsNeg // sign bit set (fp.isNegative; false for NaN)
)

var opName = map[Op]string{ONot: "not", OAnd: "and", OOr: "or", OEq: "=", OIte: "ite", OAdd: "bvadd", OSub: "bvsub", OMul: "bvmul",
	OUDiv: "bvudiv", OSDiv: "bvsdiv", OURem: "bvurem", OSRem: "bvsrem", OBAnd: "bvand", OBOr: "bvor", OBXor: "bvxor",
	OShl: "bvshl", OLShr: "bvlshr", OAShr: "bvashr", OUlt: "bvult", OUle: "bvule", OSlt: "bvslt", OSle: "bvsle"}

type Term struct {
	Op      Op
	W       uint8 // 0 = Bool
	A, B, C *Term
	V       uint64
	Name    string
	F       bool // Float64 sort (W == 64)
	// known bits of a bit-vector term (computed at construction): a bit set in
	// KZ is known to be 0, a bit set in KO is known to be 1
	KZ, KO uint64
}

func mask(w uint8) uint64 {
	if w == 0 {
		return 1 // Bool
	}
	if w >= 64 {
		return ^uint64(0)
	}
	return (uint64(1) << w) - 1
}

var tTrue = &Term{Op: OConst, W: 0, V: 1}
var tFalse = &Term{Op: OConst, W: 0, V: 0}

func Bool(b bool) *Term {
	if b {
		return tTrue
	}
	return tFalse
}

// small constants are preallocated (lock-free fast path)
var smallConst [4][1024]*Term

func init() {
	for i, w := range []uint8{8, 16, 32, 64} {
		for v := 0; v < 1024; v++ {
			if w == 8 && v > 255 {
				break
			}
			smallConst[i][v] = &Term{Op: OConst, W: w, V: uint64(v)}
			smallConst[i][v].knownBits()
		}
	}
}

// knownBits derives bits that are fixed whatever the inputs are. It lets
// comparisons of masked bytes with constants (e.g. (b&0x0f|0x40) == '{') fold
// without a solver query.
func (t *Term) knownBits() {
	if t.W == 0 || t.F {
		return
	}
	m := mask(t.W)
	switch t.Op {
	case OConst:
		t.KO, t.KZ = t.V&m, ^t.V&m
	case OBAnd:
		t.KZ, t.KO = (t.A.KZ|t.B.KZ)&m, t.A.KO&t.B.KO
	case OBOr:
		t.KO, t.KZ = (t.A.KO|t.B.KO)&m, t.A.KZ&t.B.KZ
	case OBXor:
		known := (t.A.KZ | t.A.KO) & (t.B.KZ | t.B.KO)
		v := (t.A.KO ^ t.B.KO) & known
		t.KO, t.KZ = v, known&^v
	case OZext:
		t.KO = t.A.KO
		t.KZ = t.A.KZ | (m &^ mask(t.A.W))
	case OExtract:
		t.KO, t.KZ = t.A.KO&m, t.A.KZ&m
	case OIte:
		t.KO, t.KZ = t.B.KO&t.C.KO, t.B.KZ&t.C.KZ
	case OShl:
		if t.B.IsConst() && t.B.V < uint64(t.W) {
			k := t.B.V
			t.KO = (t.A.KO << k) & m
			t.KZ = ((t.A.KZ << k) | (uint64(1)<<k - 1)) & m
		}
	case OLShr:
		if t.B.IsConst() && t.B.V < uint64(t.W) {
			k := t.B.V
			t.KO = (t.A.KO & m) >> k
			t.KZ = ((t.A.KZ & m) >> k) | (m &^ (m >> k))
		}
	case OSext:
		t.KO, t.KZ = t.A.KO, t.A.KZ
		sb := uint64(1) << (t.A.W - 1)
		hi := m &^ mask(t.A.W)
		if t.A.KO&sb != 0 {
			t.KO |= hi
		} else if t.A.KZ&sb != 0 {
			t.KZ |= hi
		}
	}
}

func (t *Term) umin() uint64 { return t.KO }
func (t *Term) umax() uint64 { return ^t.KZ & mask(t.W) }

func Const(w uint8, v uint64) *Term {
	if w == 0 {
		return Bool(v&1 == 1)
	}
	v &= mask(w)
	if v < 1024 {
		switch w {
		case 8:
			return smallConst[0][v]
		case 16:
			return smallConst[1][v]
		case 32:
			return smallConst[2][v]
		case 64:
			return smallConst[3][v]
		}
	}
	return mk(Term{Op: OConst, W: w, V: v})
}

// Hash-consing: structurally equal terms are pointer-equal (as long as both
// are alive in the table), so repeated conditions over the same symbolic data
// (e.g. lexing the same bytes twice) are recognised without a solver query.
// The table is only an optimisation: shards are cleared when they grow large,
// which loses sharing but never soundness.
type termKey struct {
	Op      Op
	W       uint8
	F       bool
	A, B, C *Term
	V       uint64
	Name    string
}

const consShards = 512

var consTab [consShards]struct {
	mu sync.Mutex
	m  map[termKey]*Term
	_  [40]byte
}

func mk(t Term) *Term {
	k := termKey{t.Op, t.W, t.F, t.A, t.B, t.C, t.V, t.Name}
	h := uint64(t.Op)*0x9E3779B97F4A7C15 ^ t.V*0xC2B2AE3D27D4EB4F ^ uint64(t.W)<<56
	h ^= uint64(uintptr(unsafe.Pointer(t.A))) * 0x165667B19E3779F9
	h ^= uint64(uintptr(unsafe.Pointer(t.B))) * 0x27D4EB2F165667C5
	h ^= uint64(uintptr(unsafe.Pointer(t.C))) * 0x9E3779B185EBCA87
	for i := 0; i < len(t.Name); i++ {
		h = h*31 + uint64(t.Name[i])
	}
	h ^= h >> 29
	sh := &consTab[h%consShards]
	sh.mu.Lock()
	if sh.m == nil || len(sh.m) > 8000 {
		sh.m = make(map[termKey]*Term, 1024)
	}
	if p, ok := sh.m[k]; ok {
		sh.mu.Unlock()
		return p
	}
	p := new(Term)
	*p = t
	p.knownBits()
	sh.m[k] = p
	sh.mu.Unlock()
	return p
}

func (t *Term) IsConst() bool { return t.Op == OConst }
func (t *Term) IsTrue() bool  { return t.Op == OConst && t.W == 0 && t.V == 1 }
func (t *Term) IsFalse() bool { return t.Op == OConst && t.W == 0 && t.V == 0 }

func sx(w uint8, v uint64) int64 {
	if w >= 64 {
		return int64(v)
	}
	sh := 64 - uint(w)
	return int64(v<<sh) >> sh
}

func Not(a *Term) *Term {
	if a.IsConst() {
		return Bool(a.V == 0)
	}
	if a.Op == ONot {
		return a.A
	}
	return mk(Term{Op: ONot, A: a})
}
func And(a, b *Term) *Term {
	if a.IsConst() {
		if a.V == 0 {
			return tFalse
		}
		return b
	}
	if b.IsConst() {
		if b.V == 0 {
			return tFalse
		}
		return a
	}
	if a == b {
		return a
	}
	return mk(Term{Op: OAnd, A: a, B: b})
}
func Or(a, b *Term) *Term {
	if a.IsConst() {
		if a.V == 1 {
			return tTrue
		}
		return b
	}
	if b.IsConst() {
		if b.V == 1 {
			return tTrue
		}
		return a
	}
	if a == b {
		return a
	}
	return mk(Term{Op: OOr, A: a, B: b})
}
func Eq(a, b *Term) *Term {
	if a == b {
		return tTrue
	}
	if a.IsConst() && b.IsConst() {
		return Bool(a.V == b.V)
	}
	if a.W != 0 && !a.F && (a.KO&b.KZ != 0 || a.KZ&b.KO != 0) {
		return tFalse // some bit is known to differ
	}
	if a.W == 0 {
		// bool equality
		if a.IsConst() {
			if a.V == 1 {
				return b
			}
			return Not(b)
		}
		if b.IsConst() {
			if b.V == 1 {
				return a
			}
			return Not(a)
		}
	}
	return mk(Term{Op: OEq, A: a, B: b})
}
func Ite(c, a, b *Term) *Term {
	if c.IsConst() {
		if c.V == 1 {
			return a
		}
		return b
	}
	if a == b {
		return a
	}
	if a.IsConst() && b.IsConst() && a.V == b.V {
		return a
	}
	return mk(Term{Op: OIte, W: a.W, F: a.F, A: c, B: a, C: b})
}

func Bin(op Op, a, b *Term) *Term {
	w := a.W
	if a.IsConst() && b.IsConst() {
		x, y := a.V, b.V
		m := mask(w)
		switch op {
		case OAdd:
			return Const(w, x+y)
		case OSub:
			return Const(w, x-y)
		case OMul:
			return Const(w, x*y)
		case OUDiv:
			if y == 0 {
				return Const(w, m)
			}
			return Const(w, x/y)
		case OURem:
			if y == 0 {
				return Const(w, x)
			}
			return Const(w, x%y)
		case OSDiv:
			if y == 0 {
				break
			}
			sxv, syv := sx(w, x), sx(w, y)
			if syv == -1 {
				return Const(w, uint64(-sxv))
			}
			return Const(w, uint64(sxv/syv))
		case OSRem:
			if y == 0 {
				break
			}
			sxv, syv := sx(w, x), sx(w, y)
			if syv == -1 {
				return Const(w, 0)
			}
			return Const(w, uint64(sxv%syv))
		case OBAnd:
			return Const(w, x&y)
		case OBOr:
			return Const(w, x|y)
		case OBXor:
			return Const(w, x^y)
		case OShl:
			if y >= uint64(w) {
				return Const(w, 0)
			}
			return Const(w, x<<y)
		case OLShr:
			if y >= uint64(w) {
				return Const(w, 0)
			}
			return Const(w, x>>y)
		case OAShr:
			if y >= uint64(w) {
				y = uint64(w) - 1
			}
			return Const(w, uint64(sx(w, x)>>y))
		case OUlt:
			return Bool(x < y)
		case OUle:
			return Bool(x <= y)
		case OSlt:
			return Bool(sx(w, x) < sx(w, y))
		case OSle:
			return Bool(sx(w, x) <= sx(w, y))
		}
	}
	rw := w
	switch op {
	case OUlt, OUle, OSlt, OSle:
		rw = 0
		// interval reasoning from known bits
		uns := op == OUlt || op == OUle
		if !uns && w > 0 {
			sb := uint64(1) << (w - 1)
			if a.KZ&sb != 0 && b.KZ&sb != 0 {
				uns = true // both non-negative: signed order = unsigned order
			}
		}
		if uns {
			strict := op == OUlt || op == OSlt
			if strict {
				if a.umax() < b.umin() {
					return tTrue
				}
				if a.umin() >= b.umax() {
					return tFalse
				}
			} else {
				if a.umax() <= b.umin() {
					return tTrue
				}
				if a.umin() > b.umax() {
					return tFalse
				}
			}
		}
	}
	switch op {
	case OAdd:
		if b.IsConst() && b.V == 0 {
			return a
		}
		if a.IsConst() && a.V == 0 {
			return b
		}
	case OSub:
		if b.IsConst() && b.V == 0 {
			return a
		}
		if a == b {
			return Const(w, 0)
		}
		// -(-x) = x
		if a.IsConst() && a.V == 0 && b.Op == OSub && b.A.IsConst() && b.A.V == 0 {
			return b.B
		}
	case OMul:
		// (-x)*y = x*(-y) = -(x*y) (mod 2^w): pull the negation out so that both
		// spellings become the same term
		if a.Op == OSub && a.A.IsConst() && a.A.V == 0 {
			return Bin(OSub, Const(w, 0), Bin(OMul, a.B, b))
		}
		if b.Op == OSub && b.A.IsConst() && b.A.V == 0 {
			return Bin(OSub, Const(w, 0), Bin(OMul, a, b.B))
		}
		if a.IsConst() && a.V == 1 {
			return b
		}
		if b.IsConst() && b.V == 1 {
			return a
		}
		if a.IsConst() && a.V == mask(w) { // -1 * y
			return Bin(OSub, Const(w, 0), b)
		}
		if b.IsConst() && b.V == mask(w) {
			return Bin(OSub, Const(w, 0), a)
		}
	}
	return mk(Term{Op: op, W: rw, A: a, B: b})
}

func Zext(a *Term, w uint8) *Term {
	if a.W == w {
		return a
	}
	if a.IsConst() {
		return Const(w, a.V)
	}
	return mk(Term{Op: OZext, W: w, A: a})
}
func Sext(a *Term, w uint8) *Term {
	if a.W == w {
		return a
	}
	if a.IsConst() {
		return Const(w, uint64(sx(a.W, a.V)))
	}
	return mk(Term{Op: OSext, W: w, A: a})
}
func Trunc(a *Term, w uint8) *Term {
	if a.W == w {
		return a
	}
	if a.IsConst() {
		return Const(w, a.V)
	}
	if (a.Op == OZext || a.Op == OSext) && a.A.W == w {
		return a.A
	}
	return mk(Term{Op: OExtract, W: w, A: a})
}

func sortStr(w uint8) string {
	if w == 0 {
		return "Bool"
	}
	return fmt.Sprintf("(_ BitVec %d)", w)
}

func (t *Term) sortStr() string {
	if t.F {
		return "(_ FloatingPoint 11 53)"
	}
	return sortStr(t.W)
}

func constStr(t *Term) string {
	if t.F {
		return fmt.Sprintf("((_ to_fp 11 53) #x%016x)", t.V)
	}
	if t.W == 0 {
		if t.V == 1 {
			return "true"
		}
		return "false"
	}
	if t.W%4 == 0 {
		return fmt.Sprintf("#x%0*x", int(t.W/4), t.V)
	}
	return fmt.Sprintf("(_ bv%d %d)", t.V, t.W)
}

// emit returns an SMT-LIB expression for t; shared nodes are named via define-fun in ctx.
type emitCtx struct {
	names map[*Term]string
	out   *strings.Builder
	n     int
	vars  []*Term
}

func (c *emitCtx) ref(t *Term) string {
	switch t.Op {
	case OConst:
		return constStr(t)
	case OVar:
		if _, ok := c.names[t]; !ok {
			c.names[t] = t.Name
			fmt.Fprintf(c.out, "(declare-const %s %s)\n", t.Name, sortStr(t.W))
			c.vars = append(c.vars, t)
		}
		return t.Name
	}
	if n, ok := c.names[t]; ok {
		return n
	}
	var e string
	switch t.Op {
	case ONot:
		e = "(not " + c.ref(t.A) + ")"
	case OIte:
		e = "(ite " + c.ref(t.A) + " " + c.ref(t.B) + " " + c.ref(t.C) + ")"
	case OZext:
		e = fmt.Sprintf("((_ zero_extend %d) %s)", t.W-t.A.W, c.ref(t.A))
	case OSext:
		e = fmt.Sprintf("((_ sign_extend %d) %s)", t.W-t.A.W, c.ref(t.A))
	case OExtract:
		e = fmt.Sprintf("((_ extract %d 0) %s)", t.W-1, c.ref(t.A))
	case OFAdd, OFSub, OFMul, OFDiv, OFLt, OFLe, OFEq:
		e = "(" + fopName[t.Op] + " " + c.ref(t.A) + " " + c.ref(t.B) + ")"
	case OFNeg, OFIsNaN, OFCeil, OFFloor, OFTrunc, OFRoundNA, OFIsInf, OFIsZero, OFIsNeg:
		e = "(" + fopName[t.Op] + " " + c.ref(t.A) + ")"
	case OBV2F:
		e = "((_ to_fp 11 53) " + c.ref(t.A) + ")"
	case OS2F:
		e = "((_ to_fp 11 53) RNE " + c.ref(t.A) + ")"
	case OU2F:
		e = "((_ to_fp_unsigned 11 53) RNE " + c.ref(t.A) + ")"
	case OF2S:
		e = "((_ fp.to_sbv 64) RTZ " + c.ref(t.A) + ")"
	case OFRound32:
		e = "((_ to_fp 11 53) RNE ((_ to_fp 8 24) RNE " + c.ref(t.A) + "))"
	default:
		e = "(" + opName[t.Op] + " " + c.ref(t.A) + " " + c.ref(t.B) + ")"
	}
	c.n++
	name := fmt.Sprintf("t%d", c.n)
	fmt.Fprintf(c.out, "(define-fun %s () %s %s)\n", name, t.sortStr(), e)
	c.names[t] = name
	return name
}

// Eval evaluates t under a model (vars -> values); missing vars = 0.
// Shared sub-terms are evaluated once (the term graph is a DAG).
func (t *Term) Eval(m map[string]uint64) uint64 {
	if t.Op == OConst {
		return t.V
	}
	ev := evaluator{m: m, memo: map[*Term]uint64{}}
	return ev.eval(t)
}

type evaluator struct {
	m    map[string]uint64
	memo map[*Term]uint64
}

func (ev *evaluator) eval(t *Term) uint64 {
	switch t.Op {
	case OConst:
		return t.V
	case OVar:
		return ev.m[t.Name] & mask(t.W)
	}
	if v, ok := ev.memo[t]; ok {
		return v
	}
	v := ev.eval1(t)
	ev.memo[t] = v
	return v
}

func (ev *evaluator) eval1(t *Term) uint64 {
	f := func(x *Term) float64 { return math.Float64frombits(ev.eval(x)) }
	fb := math.Float64bits
	switch t.Op {
	case ONot:
		return 1 - ev.eval(t.A)
	case OAnd:
		if ev.eval(t.A) == 0 {
			return 0
		}
		return ev.eval(t.B)
	case OOr:
		if ev.eval(t.A) == 1 {
			return 1
		}
		return ev.eval(t.B)
	case OEq:
		return b2u(ev.eval(t.A) == ev.eval(t.B))
	case OIte:
		if ev.eval(t.A) == 1 {
			return ev.eval(t.B)
		}
		return ev.eval(t.C)
	case OZext:
		return ev.eval(t.A)
	case OSext:
		return uint64(sx(t.A.W, ev.eval(t.A))) & mask(t.W)
	case OExtract:
		return ev.eval(t.A) & mask(t.W)
	case OFAdd:
		return fb(f(t.A) + f(t.B))
	case OFSub:
		return fb(f(t.A) - f(t.B))
	case OFMul:
		return fb(f(t.A) * f(t.B))
	case OFDiv:
		return fb(f(t.A) / f(t.B))
	case OFLt:
		return b2u(f(t.A) < f(t.B))
	case OFLe:
		return b2u(f(t.A) <= f(t.B))
	case OFEq:
		return b2u(f(t.A) == f(t.B))
	case OFNeg:
		return fb(-f(t.A))
	case OFIsNaN:
		x := f(t.A)
		return b2u(x != x)
	case OFIsInf:
		return b2u(math.IsInf(f(t.A), 0))
	case OFIsZero:
		return b2u(f(t.A) == 0)
	case OFIsNeg:
		x := f(t.A)
		return b2u(x == x && math.Signbit(x))
	case OFCeil:
		return fb(math.Ceil(f(t.A)))
	case OFFloor:
		return fb(math.Floor(f(t.A)))
	case OFTrunc:
		return fb(math.Trunc(f(t.A)))
	case OFRoundNA:
		return fb(math.Round(f(t.A)))
	case OFRound32:
		return fb(float64(float32(f(t.A))))
	case OBV2F:
		return ev.eval(t.A)
	case OS2F:
		return fb(float64(sx(t.A.W, ev.eval(t.A))))
	case OU2F:
		return fb(float64(ev.eval(t.A)))
	case OF2S:
		return uint64(cvttsd2sq(f(t.A)))
	}
	r := Bin(t.Op, Const(t.A.W, ev.eval(t.A)), Const(t.B.W, ev.eval(t.B)))
	return r.V
}
func b2u(b bool) uint64 {
	if b {
		return 1
	}
	return 0
}

// ---------- floating point ----------

func FConst(f float64) *Term { return mk(Term{Op: OConst, W: 64, F: true, V: math.Float64bits(f)}) }
func (t *Term) Float() float64 { return math.Float64frombits(t.V) }

func FBin(op Op, a, b *Term) *Term {
	if !a.F || !b.F {
		panic("FBin on non-float")
	}
	if a.IsConst() && b.IsConst() {
		x, y := a.Float(), b.Float()
		switch op {
		case OFAdd:
			return FConst(x + y)
		case OFSub:
			return FConst(x - y)
		case OFMul:
			return FConst(x * y)
		case OFDiv:
			return FConst(x / y)
		case OFLt:
			return Bool(x < y)
		case OFLe:
			return Bool(x <= y)
		case OFEq:
			return Bool(x == y)
		}
	}
	if op == OFMul {
		// -1*x = -x and 1*x = x exactly (IEEE 754); saves the solver a multiplier
		for _, p := range [][2]*Term{{a, b}, {b, a}} {
			if p[0].IsConst() {
				if p[0].Float() == -1 {
					return FUn(OFNeg, p[1])
				}
				if p[0].Float() == 1 {
					return p[1]
				}
			}
		}
	}
	if op == OFEq && a == b {
		// x == x fails exactly for NaN
		return Not(FUn(OFIsNaN, a))
	}
	switch op {
	case OFLt, OFLe, OFEq:
		return mk(Term{Op: op, W: 0, A: a, B: b})
	}
	return mk(Term{Op: op, W: 64, F: true, A: a, B: b})
}

func FUn(op Op, a *Term) *Term {
	if op == OFNeg && a.Op == OFNeg {
		return a.A
	}
	if a.IsConst() {
		x := a.Float()
		switch op {
		case OFNeg:
			return FConst(-x)
		case OFIsNaN:
			return Bool(x != x)
		case OFIsInf:
			return Bool(math.IsInf(x, 0))
		case OFIsZero:
			return Bool(x == 0)
		case OFIsNeg:
			return Bool(x == x && math.Signbit(x))
		case OFCeil:
			return FConst(math.Ceil(x))
		case OFFloor:
			return FConst(math.Floor(x))
		case OFTrunc:
			return FConst(math.Trunc(x))
		case OFRoundNA:
			return FConst(math.Round(x))
		case OFRound32:
			return FConst(float64(float32(x)))
		}
	}
	switch op {
	case OFIsNaN:
		// push the NaN test through arithmetic (IEEE 754 rules) so that the
		// solver does not have to bit-blast multipliers/dividers for it
		inf := func(x *Term) *Term { return FUn(OFIsInf, x) }
		zero := func(x *Term) *Term { return FUn(OFIsZero, x) }
		nan := func(x *Term) *Term { return FUn(OFIsNaN, x) }
		neg := func(x *Term) *Term { return FUn(OFIsNeg, x) }
		switch a.Op {
		case OFNeg, OFCeil, OFFloor, OFTrunc, OFRound32, OFRoundNA:
			return nan(a.A)
		case OS2F, OU2F:
			return tFalse
		case OIte:
			return Ite(a.A, nan(a.B), nan(a.C))
		case OFAdd:
			return Or(Or(nan(a.A), nan(a.B)), And(And(inf(a.A), inf(a.B)), Not(Eq(neg(a.A), neg(a.B)))))
		case OFSub:
			return Or(Or(nan(a.A), nan(a.B)), And(And(inf(a.A), inf(a.B)), Eq(neg(a.A), neg(a.B))))
		case OFMul:
			return Or(Or(nan(a.A), nan(a.B)), Or(And(inf(a.A), zero(a.B)), And(zero(a.A), inf(a.B))))
		case OFDiv:
			return Or(Or(nan(a.A), nan(a.B)), Or(And(inf(a.A), inf(a.B)), And(zero(a.A), zero(a.B))))
		}
		return mk(Term{Op: op, W: 0, A: a})
	case OFIsInf, OFIsZero, OFIsNeg:
		switch a.Op {
		case OFNeg:
			if op == OFIsNeg {
				// sign flips (for NaN fp.isNegative is false either way in SMT-LIB? no: keep exact) 
				break
			}
			return FUn(op, a.A)
		case OS2F, OU2F:
			if op == OFIsInf {
				return tFalse
			}
		}
		return mk(Term{Op: op, W: 0, A: a})
	}
	return mk(Term{Op: op, W: 64, F: true, A: a})
}

func BV2F(a *Term) *Term {
	if a.IsConst() {
		return mk(Term{Op: OConst, W: 64, F: true, V: a.V})
	}
	return mk(Term{Op: OBV2F, W: 64, F: true, A: a})
}

// Int2F converts a bit-vector (signed or unsigned reading) to float64.
func Int2F(a *Term, signed bool) *Term {
	if a.IsConst() {
		if signed {
			return FConst(float64(sx(a.W, a.V)))
		}
		return FConst(float64(a.V))
	}
	if signed {
		return mk(Term{Op: OS2F, W: 64, F: true, A: a})
	}
	return mk(Term{Op: OU2F, W: 64, F: true, A: a})
}

// F2Int models Go's float->signed int conversion on amd64 (CVTTSD2SQ):
// NaN and out-of-range values give the "integer indefinite" value MinInt64,
// then the result is truncated to the target width.
func F2Int(a *Term, w uint8) *Term {
	if a.IsConst() {
		return Const(w, uint64(cvttsd2sq(a.Float())))
	}
	raw := mk(Term{Op: OF2S, W: 64, A: a})
	lo := FConst(-9223372036854775808.0)
	hi := FConst(9223372036854775808.0)
	inr := And(FBin(OFLe, lo, a), FBin(OFLt, a, hi))
	r := Ite(inr, raw, Const(64, 1<<63))
	return Trunc(r, w)
}

func cvttsd2sq(f float64) int64 {
	if f != f || f >= 9223372036854775808.0 || f < -9223372036854775808.0 {
		return math.MinInt64
	}
	return int64(f)
}

var fopName = map[Op]string{OFAdd: "fp.add RNE", OFSub: "fp.sub RNE", OFMul: "fp.mul RNE", OFDiv: "fp.div RNE",
	OFLt: "fp.lt", OFLe: "fp.leq", OFEq: "fp.eq", OFNeg: "fp.neg", OFIsNaN: "fp.isNaN",
	OFIsInf: "fp.isInfinite", OFIsZero: "fp.isZero", OFIsNeg: "fp.isNegative",
	OFCeil: "fp.roundToIntegral RTP", OFFloor: "fp.roundToIntegral RTN", OFTrunc: "fp.roundToIntegral RTZ", OFRoundNA: "fp.roundToIntegral RNA"}
